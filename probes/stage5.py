import sys,re; sys.path.insert(0,'/var/tmp/probe/v1')
from wrap import *
s=open('s4.rs').read()
pats=[r'^impl Node \{', r'^fn collapse_root_stack_to', r'^fn collapse_all_sequences', r'^pub\(crate\) fn tokens_to_operator_tree',
      r'^pub struct NodeIter', r"^impl<'a> Iterator for NodeIter<'a>", r'^pub struct HashMapContext ', r'^impl Context for HashMapContext', r'^impl ContextWithMutableVariables\s+for HashMapContext',
      r'^fn partial_tokens_to_tokens', r'^fn str_to_partial_tokens', r'^fn try_skip_comment', r'^fn parse_string_literal', r'^fn parse_escape_sequence', r'^fn char_to_partial_token', r'^impl Token \{',
      r'^pub fn eval_int_with_context<', r'^pub fn eval_with_context<', r'^pub fn eval_number_with_context_mut<']
for pat in pats:
    try: s=wrap_item(s,pat)
    except SystemExit as e: print(e)
open(sys.argv[1],'w').write(s)
