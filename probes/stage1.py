import sys,re; sys.path.insert(0,'/var/tmp/probe/v1')
from wrap import *
s=open('m1.rs').read()
def ext_derive(s,pat):
    return re.sub(pat, lambda m: '#[verifier::external_derive]\n'+m.group(0), s, count=1, flags=re.M)
types=[r'^pub enum Value ', r'^pub enum ValueType', r'^pub enum EvalexprError ', r'^pub enum Operator ', r'^pub enum Token ', r'^pub enum PartialToken ', r'^pub struct Node ']
for pat in types:
    s=ext_derive(s,pat)
    s=wrap_item(s,pat)
# preamble types
s=s.replace('#[derive(Debug, Clone, PartialEq)]\npub struct VNum;','::vstd::prelude::verus!{\n#[derive(Debug, Clone, PartialEq)]\n#[verifier::external_derive]\npub struct VNum;\n}')
s=s.replace('#[derive(Debug, Clone, PartialEq, Eq, PartialOrd, Ord)]\npub struct VInt(i64);','::vstd::prelude::verus!{\n#[derive(Debug, Clone, PartialEq, Eq, PartialOrd, Ord)]\n#[verifier::external_derive]\n#[verifier::external_body]\npub struct VInt(i64);\n}')
s=s.replace('#[derive(Debug, Clone, PartialEq, PartialOrd)]\npub struct VFloat(f64);','::vstd::prelude::verus!{\n#[derive(Debug, Clone, PartialEq, PartialOrd)]\n#[verifier::external_derive]\n#[verifier::external_body]\npub struct VFloat(f64);\n}')
open(sys.argv[1],'w').write(s)
