import re,sys
from mono import strip_test_mods
def remove_module(s,header_pat):
    m=re.search(header_pat,s,flags=re.M)
    if not m: raise SystemExit('no module '+header_pat)
    j=s.index('{',m.start()); depth=0
    while True:
        c=s[j]
        if c=='"':
            j+=1
            while s[j]!='"':
                if s[j]=='\\': j+=1
                j+=1
        elif c=="'":
            mm=re.match(r"'(\\.|[^\\'])'",s[j:])
            if mm: j+=len(mm.group(0))-1
        elif c=='/' and s[j+1]=='/': j=s.index('\n',j)
        elif c=='{': depth+=1
        elif c=='}':
            depth-=1
            if depth==0: break
        j+=1
    return s[:m.start()]+s[j+1:]
def mono(s):
    s=strip_test_mods(s)
    s=s.replace('#![forbid(unsafe_code)]','').replace('#![deny(missing_docs)]','')
    # drop commented-out num_traits module and concrete default numeric impls (verified by Kani instead)
    s=re.sub(r'/\*#\[cfg\(feature = "num-traits"\)\]\s*pub mod num_traits_numeric_types \{.*?\n\}\*/','',s,flags=re.S)
    s=remove_module(s,r'^pub mod default_numeric_types \{')
    R=[
     (r'<NumericTypes: EvalexprNumericTypes = DefaultNumericTypes>',''),
     (r'<NumericTypes = DefaultNumericTypes>',''),
     (r'<T, NumericTypes = DefaultNumericTypes>','<T>'),
     (r'pub trait (EvalexprInt|EvalexprFloat)<NumericTypes: EvalexprNumericTypes<(?:Int|Float) = Self>>:',r'pub trait \1:'),
     (r'type (Int|Float): (EvalexprInt|EvalexprFloat)<Self>',r'type \1: \2'),
     (r"<'a, NumericTypes: EvalexprNumericTypes>", "<'a>"),
     (r", NumericTypes: EvalexprNumericTypes>", ">"),
     (r'<NumericTypes: EvalexprNumericTypes>',''),
     (r'impl<NumericTypes> ','impl '),
     (r'pub struct (EmptyContext|EmptyContextWithBuiltinFunctions)<NumericTypes>\(PhantomData<NumericTypes>\);',r'pub struct \1(PhantomData<()>);'),
     (r'struct NodeVisitor\(PhantomData<NumericTypes>\);','struct NodeVisitor(PhantomData<()>);'),
     (r'<(?:NumericTypes|C::NumericTypes|Self::NumericTypes|DefaultNumericTypes) as EvalexprNumericTypes>::Int','crate::VInt'),
     (r'<(?:NumericTypes|C::NumericTypes|Self::NumericTypes|DefaultNumericTypes) as EvalexprNumericTypes>::Float','crate::VFloat'),
     (r'<(?:NumericTypes|C::NumericTypes) as EvalexprNumericTypes>::','crate::VNum::'),
     (r'\bNumericTypes::Int\b','crate::VInt'),(r'\bNumericTypes::Float\b','crate::VFloat'),
     (r'\bNumericTypes::int_as_float','crate::VNum::int_as_float'),
     (r'<C: Context<NumericTypes = NumericTypes>>','<C: Context>'),
     (r'Context<NumericTypes = NumericTypes>','Context'),
     (r'^\s*/// The numeric types used for evaluation\.\n\s*type NumericTypes: EvalexprNumericTypes;\n','' ),
     (r'^\s*type NumericTypes = NumericTypes;\n',''),
     (r'::<(?:NumericTypes|DefaultNumericTypes)>',''),
     (r'<(?:NumericTypes|C::NumericTypes|Self::NumericTypes|DefaultNumericTypes)>',''),
     (r', (?:NumericTypes|C::NumericTypes|Self::NumericTypes|DefaultNumericTypes)>','>'),
     (r"<'a, NumericTypes>","<'a>"),
     (r'default_numeric_types::DefaultNumericTypes, ',''),
     (r'\{default_numeric_types::DefaultNumericTypes\}','{}'),
     (r'value::numeric_types::default_numeric_types::DefaultNumericTypes,',''),
     (r'numeric_types::default_numeric_types::DefaultNumericTypes,',''),
    ]
    for p,r in R: s=re.sub(p,r,s,flags=re.M)
    s=re.sub(r'(?<![A-Za-z0-9_"])int(?![A-Za-z0-9_"])','int_v',s)
    return s
PRE='''
// ---- trusted preamble: abstract numeric instance ----
#[derive(Debug, Clone, PartialEq)]
pub struct VNum;
pub type DefaultNumericTypes = VNum;
#[derive(Debug, Clone, PartialEq, Eq, PartialOrd, Ord)]
pub struct VInt(i64);
#[derive(Debug, Clone, PartialEq, PartialOrd)]
pub struct VFloat(f64);
impl std::fmt::Display for VInt { fn fmt(&self, f: &mut std::fmt::Formatter) -> std::fmt::Result { self.0.fmt(f) } }
impl std::fmt::Display for VFloat { fn fmt(&self, f: &mut std::fmt::Formatter) -> std::fmt::Result { self.0.fmt(f) } }
impl std::str::FromStr for VInt { type Err=(); fn from_str(_s:&str)->Result<Self,()> { unimplemented!() } }
impl std::str::FromStr for VFloat { type Err=(); fn from_str(_s:&str)->Result<Self,()> { unimplemented!() } }
macro_rules! vf_binop { ($tr:ident,$m:ident) => { impl std::ops::$tr for VFloat { type Output=VFloat; fn $m(self, _o: VFloat)->VFloat { unimplemented!() } } } }
vf_binop!(Add,add); vf_binop!(Sub,sub); vf_binop!(Mul,mul); vf_binop!(Div,div); vf_binop!(Rem,rem);
impl std::ops::Neg for VFloat { type Output=VFloat; fn neg(self)->VFloat { unimplemented!() } }
impl crate::value::numeric_types::EvalexprNumericTypes for VNum {
    type Int = VInt; type Float = VFloat;
    fn int_as_float(_i: &VInt) -> VFloat { unimplemented!() }
    fn float_as_int(_f: &VFloat) -> VInt { unimplemented!() }
}
'''
if __name__=='__main__':
    s=open(sys.argv[1]).read()
    s=mono(s)
    s=s.replace('use vstd::prelude::*;\n','use vstd::prelude::*;\n'+PRE,1)
    open(sys.argv[2],'w').write(s)

def gen_impl(s, trait, ty):
    m=re.search(r'pub trait '+trait+r':.*?\n\{(.*?)\n\}\n',s,flags=re.S)
    body=m.group(1)
    body=re.sub(r'^\s*///.*\n','',body,flags=re.M)
    body=re.sub(r'^\s*#\[expect.*\n','',body,flags=re.M)
    body=re.sub(r'const (MIN|MAX): Self;',r'const \1: Self = '+ty+r'(0 as _);',body)
    body=re.sub(r'(fn [^;{]*?);',r'\1 { unimplemented!() }',body,flags=re.S)
    return f'impl crate::value::numeric_types::{trait} for {ty} {{\n{body}\n}}\n'
