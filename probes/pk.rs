// Design-phase probe: assumed generic specs for Peekable<I> + `while let` with invariants.
// Result with verus 0.2026.09.13: accepted by the front end; the loop needs an exit fact
// (`ensures` on the loop / match-and-break form) to carry "next() returned None" out.
use vstd::prelude::*;
use std::iter::Peekable;
use std::str::Chars;
verus!{
#[verifier::external_type_specification]
#[verifier::external_body]
#[verifier::reject_recursive_types(I)]
pub struct ExPeekable<I: Iterator>(Peekable<I>);

pub uninterp spec fn rem<I: Iterator>(p: &Peekable<I>) -> Seq<I::Item>;

pub assume_specification<I: Iterator>[ <Peekable<I> as Iterator>::next ](p: &mut Peekable<I>) -> (r: Option<I::Item>)
    ensures
        rem(old(p)).len() == 0 ==> r.is_none() && rem(final(p)) == rem(old(p)),
        rem(old(p)).len() > 0 ==> r == Some(rem(old(p))[0]) && rem(final(p)) == rem(old(p)).drop_first();

pub assume_specification<I: Iterator>[ Peekable::<I>::peek ](p: &mut Peekable<I>) -> (r: Option<&I::Item>)
    ensures
        rem(final(p)) == rem(old(p)),
        rem(old(p)).len() == 0 ==> r.is_none(),
        rem(old(p)).len() > 0 ==> r.is_some() && *r.unwrap() == rem(old(p))[0];

pub open spec fn count_a(s: Seq<char>) -> nat decreases s.len() {
    if s.len() == 0 { 0 } else { (if s[0] == 'a' { 1nat } else { 0nat }) + count_a(s.drop_first()) }
}

fn count(iter: &mut Peekable<Chars<'_>>) -> (n: u64)
    requires rem(old(iter)).len() < 1000
{
    let mut n: u64 = 0;
    let ghost orig = rem(iter);
    while let Some(c) = iter.next()
        invariant n as nat + count_a(rem(iter)) == count_a(orig), n as nat + rem(iter).len() <= 1000,
        decreases rem(iter).len()
    {
        if c == 'a' { n = n + 1; }
    }
    n
}
}
fn main(){}
