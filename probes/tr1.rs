use vstd::prelude::*;
verus!{
#[derive(Clone)]
#[verifier::external_derive]
#[verifier::external_body]
pub struct VInt(i64);
pub uninterp spec fn iv(v: VInt) -> int;
pub broadcast axiom fn iv_range(v: VInt) ensures i64::MIN <= #[trigger] iv(v) <= i64::MAX;
pub broadcast axiom fn iv_inj(a: VInt, b: VInt) ensures (#[trigger] iv(a) == #[trigger] iv(b)) ==> a == b;

#[derive(Clone)]
#[verifier::external_derive]
pub enum Value { Int(VInt), Boolean(bool), Empty }
pub enum EvalexprError { AdditionError { augend: Value, addend: Value }, WrongArgs{expected: usize, actual: usize}, ExpectedInt{actual: Value} }

pub assume_specification[<Value as Clone>::clone](v: &Value) -> (r: Value) ensures r == *v;
pub assume_specification[<VInt as Clone>::clone](v: &VInt) -> (r: VInt) ensures r == *v;
pub trait EvalexprInt: Sized {
    fn checked_add(&self, rhs: &Self) -> (r: Result<Self, EvalexprError>)
        ensures ({ let s = Self::as_int(*self) + Self::as_int(*rhs);
                   match r { Ok(v) => i64::MIN <= s <= i64::MAX && Self::as_int(v) == s,
                             Err(e) => (s < i64::MIN || s > i64::MAX) && e == (EvalexprError::AdditionError{augend: Self::to_value(*self), addend: Self::to_value(*rhs)}) } });
    spec fn as_int(x: Self) -> int;
    spec fn to_value(x: Self) -> Value;
}
impl EvalexprInt for VInt {
    #[verifier::external_body]
    fn checked_add(&self, rhs: &Self) -> (r: Result<Self, EvalexprError>) { unimplemented!() }
    open spec fn as_int(x: Self) -> int { iv(x) }
    open spec fn to_value(x: Self) -> Value { Value::Int(x) }
}
pub open spec fn add_spec(a: Value, b: Value) -> Result<Value, EvalexprError> {
    match (a, b) {
        (Value::Int(x), Value::Int(y)) => {
            let s = iv(x) + iv(y);
            if i64::MIN <= s <= i64::MAX { Ok(Value::Int(choose|v: VInt| iv(v) == s)) } else { Err(EvalexprError::AdditionError{augend: a, addend: b}) }
        },
        (Value::Int(_), _) => Err(EvalexprError::ExpectedInt{actual: b}),
        _ => Err(EvalexprError::ExpectedInt{actual: a}),
    }
}
fn as_int(v: &Value) -> (r: Result<VInt, EvalexprError>)
    ensures match *v { Value::Int(i) => r == Ok::<VInt,EvalexprError>(i), _ => r == Err::<VInt,EvalexprError>(EvalexprError::ExpectedInt{actual: *v}) }
{
    match v { Value::Int(i) => Ok(i.clone()), value => Err(EvalexprError::ExpectedInt{actual: value.clone()}) }
}
fn add(arguments: &[Value]) -> (r: Result<Value, EvalexprError>)
    requires arguments.len() == 2
    ensures r == add_spec(arguments[0], arguments[1])
{
    broadcast use iv_inj;
    let a = as_int(&arguments[0])?;
    let b = as_int(&arguments[1])?;
    match a.checked_add(&b) { Ok(v_ok) => Ok(Value::Int(v_ok)), Err(v_err) => Err(v_err) }
}
}
fn main(){}
