import sys,re; sys.path.insert(0,'/var/tmp/probe/v1')
from wrap import *
s=open('s1.rs').read()
for pat in [r'^pub trait EvalexprNumericTypes', r'^pub trait EvalexprInt:', r'^pub trait EvalexprFloat:', r'^pub trait Context \{', r'^pub trait ContextWithMutableVariables', r'^impl Operator \{', r'^impl Value \{', r'^impl EvalexprError \{', r'^pub\(crate\) fn expect_operator_argument_amount', r'^pub fn expect_number_or_string']:
    s=wrap_item(s,pat)
open(sys.argv[1],'w').write(s)
