import re,sys
def strip_test_mods(s):
    # remove #[cfg(test)] mod tests { ... }
    out=[];i=0
    pat=re.compile(r'#\[cfg\(test\)\]\s*mod tests \{')
    while True:
        m=pat.search(s,i)
        if not m: out.append(s[i:]); break
        out.append(s[i:m.start()])
        j=m.end(); depth=1
        while depth:
            c=s[j]
            if c=='"':
                j+=1
                while s[j]!='"':
                    if s[j]=='\\': j+=1
                    j+=1
            elif c=="'" :
                mm=re.match(r"'(\\.|[^\\'])'",s[j:])
                if mm: j+=len(mm.group(0))-1
            elif c=='/' and s[j+1]=='/': j=s.index('\n',j)
            elif c=='{': depth+=1
            elif c=='}': depth-=1
            j+=1
        i=j
    return ''.join(out)
def mono(s):
    s=strip_test_mods(s)
    s=s.replace('#![forbid(unsafe_code)]','').replace('#![deny(missing_docs)]','')
    R=[
     (r'<NumericTypes: EvalexprNumericTypes = DefaultNumericTypes>',''),
     (r'<NumericTypes = DefaultNumericTypes>',''),
     (r'<T, NumericTypes = DefaultNumericTypes>','<T>'),
     (r'impl<NumericTypes: EvalexprNumericTypes<(?:Int|Float) = Self>> (EvalexprInt|EvalexprFloat)<NumericTypes> for',r'impl \1 for'),
     (r'pub trait (EvalexprInt|EvalexprFloat)<NumericTypes: EvalexprNumericTypes<(?:Int|Float) = Self>>:',r'pub trait \1:'),
     (r'type (Int|Float): (EvalexprInt|EvalexprFloat)<Self>',r'type \1: \2'),
     (r"<'a, NumericTypes: EvalexprNumericTypes>", "<'a>"),
     (r", NumericTypes: EvalexprNumericTypes>", ">"),
     (r'<NumericTypes: EvalexprNumericTypes>',''),
     (r'impl<NumericTypes> ','impl '),
     (r'pub struct (EmptyContext|EmptyContextWithBuiltinFunctions)<NumericTypes>\(PhantomData<NumericTypes>\);',r'pub struct \1(PhantomData<()>);'),
     (r'struct NodeVisitor\(PhantomData<NumericTypes>\);','struct NodeVisitor(PhantomData<()>);'),
     (r'<(?:NumericTypes|C::NumericTypes|Self::NumericTypes|DefaultNumericTypes) as EvalexprNumericTypes>::Int','i64'),
     (r'<(?:NumericTypes|C::NumericTypes|Self::NumericTypes|DefaultNumericTypes) as EvalexprNumericTypes>::Float','f64'),
     (r'<(?:NumericTypes|C::NumericTypes) as EvalexprNumericTypes>::','crate::DefaultNumericTypes::'),
     (r'\bNumericTypes::Int\b','i64'),(r'\bNumericTypes::Float\b','f64'),
     (r'\(NumericTypes::int_as_float','(crate::DefaultNumericTypes::int_as_float'),
     (r'\bNumericTypes::int_as_float','crate::DefaultNumericTypes::int_as_float'),
     (r'<C: Context<NumericTypes = NumericTypes>>','<C: Context>'),
     (r'Context<NumericTypes = NumericTypes>','Context'),
     (r'^\s*/// The numeric types used for evaluation\.\n\s*type NumericTypes: EvalexprNumericTypes;\n','' ),
     (r'^\s*type NumericTypes = NumericTypes;\n',''),
     (r'::<(?:NumericTypes|DefaultNumericTypes)>',''),
     (r'<(?:NumericTypes|C::NumericTypes|Self::NumericTypes|DefaultNumericTypes)>',''),
     (r', (?:NumericTypes|C::NumericTypes|Self::NumericTypes|DefaultNumericTypes)>','>'),
     (r"<'a, NumericTypes>","<'a>"),
    ]
    for p,r in R: s=re.sub(p,r,s,flags=re.M)
    # avoid clash with verus builtin `int`/`nat`
    s=re.sub(r'(?<![A-Za-z0-9_"])int(?![A-Za-z0-9_"])','int_v',s)
    return s
if __name__=='__main__':
    s=open(sys.argv[1]).read()
    open(sys.argv[2],'w').write(mono(s))
