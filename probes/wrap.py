import re,sys
OPEN='::vstd::prelude::verus!{\n'
CLOSE='\n} // verus!\n'
def item_span(s, start):
    """given index of start of an item (at its first attr/doc/keyword line), return end index just after the matching close brace"""
    i=s.index('{',start)
    # make sure no ';' before '{' (e.g. type alias)
    depth=0; j=i
    in_str=False
    while j<len(s):
        c=s[j]
        if c=='"' and not in_char_lit(s,j):
            # skip string literal
            j+=1
            while s[j]!='"':
                if s[j]=='\\': j+=1
                j+=1
        elif c=='/' and s[j+1]=='/':
            j=s.index('\n',j)
        elif c=='/' and s[j+1]=='*':
            j=s.index('*/',j)+1
        elif c=="'" :
            # char literal or lifetime
            m=re.match(r"'(\\.|[^\\'])'",s[j:])
            if m: j+=len(m.group(0))-1
        elif c=='{': depth+=1
        elif c=='}':
            depth-=1
            if depth==0: return j+1
        j+=1
    raise Exception("unbalanced")
def in_char_lit(s,j): return s[j-1]=="'" and s[j+1]=="'"
def wrap_item(s, pat, attrs=''):
    m=re.search(pat,s,flags=re.M)
    if not m: raise SystemExit("no match: "+pat)
    st=m.start()
    # extend start upwards over preceding attribute/doc lines
    while True:
        prev_end=s.rfind('\n',0,st-1)
        line=s[prev_end+1:st-1] if st>0 else ''
        if re.match(r'\s*(#\[|///|/\*\*)',line) : st=prev_end+1
        else: break
    en=item_span(s,m.start())
    return s[:st]+OPEN+attrs+s[st:en]+CLOSE+s[en:]
