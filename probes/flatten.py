import re,sys,os
def inline(path):
    src=open(path).read()
    d=os.path.dirname(path)
    base=os.path.basename(path)
    # directory for child modules
    if base in('lib.rs','mod.rs'): cd=d
    else: cd=os.path.join(d,base[:-3])
    def rep(m):
        attrs,vis,name=m.group(1),m.group(2) or '',m.group(3)
        for cand in (os.path.join(cd,name+'.rs'), os.path.join(cd,name,'mod.rs')):
            if os.path.exists(cand):
                body=inline(cand)
                # inner attributes/doc comments (//! and #![..]) are legal at start of inline module
                return f"{attrs}{vis}mod {name} {{\n{body}\n}}"
        raise SystemExit(f"module {name} not found from {path}")
    return re.sub(r'((?:^[ \t]*#\[[^\n]*\]\n)*)^[ \t]*(pub(?:\([a-z]+\))? )?mod ([a-z_0-9]+);', rep, src, flags=re.M)
print(inline(sys.argv[1]))
