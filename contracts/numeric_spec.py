"""Single source for the numeric contracts (DESIGN.md 3.4).

Per method of EvalexprInt / EvalexprFloat / EvalexprNumericTypes:
  verus : `ensures` text attached to the abstract instance VInt / VFloat / VNum
          (the caller side: generic code is verified against it)
  kani  : Rust assertion body proving the same formula for the real impl on i64 / f64
          (the callee side), over all operands, with an i128 reference.
In the kani text `a`, `b` are the i64 operands, `r` the result of the real method.
tdiv/trem (truncating division / remainder with the dividend's sign) are defined in contracts/00_vocab.vc
(Verus, over Euclidean division).  Kani side: the quotient is characterised on magnitudes by multiplication
(|a| = |q|*|b| + rem, rem < |b|, sign rule; 150 s, complete).  For the remainder only the Ok/Err partition and
the error payload are proved: every SAT/SMT back end installed here (cadical, kissat, z3 4.8, cvc5 1.0) failed
to prove any fact about the *value* of i64 `%` within 15 min, so "the Ok value of checked_rem is the truncated
remainder" rests on std (listed as an assumption; harness int_checked_rem_value is kept for the thorough tier
under a budget and reported as undecided, never as proved, when it does not finish).
"""

INT = {
    'checked_add': dict(
        doc='exact a+b if it fits in 64 bits, else AdditionError{augend:a, addend:b}',
        verus='''ensures match r {
            Ok(v) => v.0 as int == self.0 as int + rhs.0 as int,
            Err(e) => !(i64::MIN as int <= self.0 as int + rhs.0 as int <= i64::MAX as int)
                && e == crate::EvalexprError::AdditionError { augend: crate::Value::Int(*self), addend: crate::Value::Int(*rhs) },
        }''',
        kani='''let w = a as i128 + b as i128;
        match &r { Ok(v) => assert!(*v as i128 == w),
                  Err(e) => { assert!(w < i64::MIN as i128 || w > i64::MAX as i128);
                              assert!(matches!(e, EvalexprError::AdditionError { augend: Value::Int(x), addend: Value::Int(y) } if *x == a && *y == b)); } }'''),
    'checked_sub': dict(
        doc='exact a-b if it fits, else SubtractionError{minuend:a, subtrahend:b}',
        verus='''ensures match r {
            Ok(v) => v.0 as int == self.0 as int - rhs.0 as int,
            Err(e) => !(i64::MIN as int <= self.0 as int - rhs.0 as int <= i64::MAX as int)
                && e == crate::EvalexprError::SubtractionError { minuend: crate::Value::Int(*self), subtrahend: crate::Value::Int(*rhs) },
        }''',
        kani='''let w = a as i128 - b as i128;
        match &r { Ok(v) => assert!(*v as i128 == w),
                  Err(e) => { assert!(w < i64::MIN as i128 || w > i64::MAX as i128);
                              assert!(matches!(e, EvalexprError::SubtractionError { minuend: Value::Int(x), subtrahend: Value::Int(y) } if *x == a && *y == b)); } }'''),
    'checked_mul': dict(
        doc='exact a*b if it fits, else MultiplicationError{multiplicand:a, multiplier:b}',
        verus='''ensures match r {
            Ok(v) => v.0 as int == self.0 as int * rhs.0 as int,
            Err(e) => !(i64::MIN as int <= self.0 as int * rhs.0 as int <= i64::MAX as int)
                && e == crate::EvalexprError::MultiplicationError { multiplicand: crate::Value::Int(*self), multiplier: crate::Value::Int(*rhs) },
        }''',
        kani='''let w = a as i128 * b as i128;
        match &r { Ok(v) => assert!(*v as i128 == w),
                  Err(e) => { assert!(w < i64::MIN as i128 || w > i64::MAX as i128);
                              assert!(matches!(e, EvalexprError::MultiplicationError { multiplicand: Value::Int(x), multiplier: Value::Int(y) } if *x == a && *y == b)); } }'''),
    'checked_neg': dict(
        doc='exact -a if it fits, else NegationError{argument:a}',
        verus='''ensures match r {
            Ok(v) => v.0 as int == -(self.0 as int),
            Err(e) => self.0 == i64::MIN
                && e == crate::EvalexprError::NegationError { argument: crate::Value::Int(*self) },
        }''',
        kani='''let w = -(a as i128);
        match &r { Ok(v) => assert!(*v as i128 == w),
                  Err(e) => { assert!(a == i64::MIN);
                              assert!(matches!(e, EvalexprError::NegationError { argument: Value::Int(x) } if *x == a)); } }'''),
    'checked_div': dict(
        doc='truncating quotient; b == 0 or MIN / -1 give DivisionError{dividend:a, divisor:b}',
        verus='''ensures match r {
            Ok(v) => rhs.0 != 0 && !(self.0 == i64::MIN && rhs.0 == -1) && v.0 as int == crate::vs::tdiv(self.0 as int, rhs.0 as int),
            Err(e) => (rhs.0 == 0 || (self.0 == i64::MIN && rhs.0 == -1))
                && e == crate::EvalexprError::DivisionError { dividend: crate::Value::Int(*self), divisor: crate::Value::Int(*rhs) },
        }''',
        kani='''match &r { Ok(v) => { assert!(b != 0 && !(a == i64::MIN && b == -1)); },
                  Err(e) => { assert!(b == 0 || (a == i64::MIN && b == -1));
                              assert!(matches!(e, EvalexprError::DivisionError { dividend: Value::Int(x), divisor: Value::Int(y) } if *x == a && *y == b)); } }''',
        kani_value='''match &r { Ok(v) => {
                          // truncating quotient, characterised on magnitudes: |a| = |q|*|b| + rem with rem < |b|; sign rule
                          let ua = a.unsigned_abs(); let ub = b.unsigned_abs(); let uq = v.unsigned_abs();
                          let p = uq.checked_mul(ub); assert!(p.is_some()); let p = p.unwrap();
                          assert!(p <= ua && ua - p < ub);
                          assert!(*v == 0 || ((*v < 0) == ((a < 0) != (b < 0)))); },
                  Err(_) => {} }'''),
    'checked_rem': dict(
        doc='remainder with the sign of the dividend; b == 0 or MIN % -1 give ModulationError{dividend:a, divisor:b}',
        verus='''ensures match r {
            Ok(v) => rhs.0 != 0 && !(self.0 == i64::MIN && rhs.0 == -1) && v.0 as int == crate::vs::trem(self.0 as int, rhs.0 as int),
            Err(e) => (rhs.0 == 0 || (self.0 == i64::MIN && rhs.0 == -1))
                && e == crate::EvalexprError::ModulationError { dividend: crate::Value::Int(*self), divisor: crate::Value::Int(*rhs) },
        }''',
        kani='''match &r { Ok(v) => { assert!(b != 0 && !(a == i64::MIN && b == -1)); },
                  Err(e) => { assert!(b == 0 || (a == i64::MIN && b == -1));
                              assert!(matches!(e, EvalexprError::ModulationError { dividend: Value::Int(x), divisor: Value::Int(y) } if *x == a && *y == b)); } }''',
        kani_value='''match &r { Ok(v) => { assert!(v.unsigned_abs() < b.unsigned_abs()); assert!(*v == 0 || ((*v < 0) == (a < 0))); }, Err(_) => {} }'''),
}

INT['abs'] = dict(doc='exact |a|; abs(MIN) is an error', verus='''ensures match r {
            Ok(v) => self.0 != i64::MIN && v.0 as int == crate::vs::int_abs_spec(self.0 as int),
            Err(_) => self.0 == i64::MIN,
        }''')
INT['from_hex_str'] = dict(doc='radix-16 parser', verus='ensures r == (match crate::vs::hex_int_spec(literal@) { Some(i) => Ok::<Self, ()>(i), None => Err(()) })')
INT['from_usize'] = dict(doc='usize -> int exact or error', verus='''ensures match r {
            Ok(v) => v.0 as int == int_v as int,
            Err(_) => int_v as int > i64::MAX as int,
        }''')
INT['into_usize'] = dict(doc='int -> usize exact or error', verus='''ensures match r {
            Ok(u) => self.0 >= 0 && u as int == self.0 as int,
            Err(_) => self.0 < 0 || self.0 as int > usize::MAX as int,
        }''')

FLOAT = {
    'abs': dict(doc='IEEE abs', verus='ensures r == crate::vs::f_abs(*self)'),
    'pow': dict(doc='IEEE pow of the two operands in order', verus='ensures r == crate::f_pow(*self, *exponent)'),
}

NUM = {
    'int_as_float': dict(doc='int to float conversion', verus='ensures r == crate::i2f(*int_v)'),
    'float_as_int': dict(doc='float to int conversion', verus='ensures r == crate::f2i(*float)'),
}
