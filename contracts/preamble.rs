// ---------------------------------------------------------------------------------------
// TRUSTED PREAMBLE (DESIGN.md 3.3).  Everything in this file is an assumption about code
// that is not verified by Verus: the abstract numeric instance, std items without vstd
// specifications, derived Clone/PartialEq of the crate's recursive enums.
// The numeric contracts on VInt are the ones Kani proves for the real `impl EvalexprInt
// for i64` (kani/numeric harnesses; single source: contracts/numeric.spec).
// ---------------------------------------------------------------------------------------

::vstd::prelude::verus! {

// the verification is for a 64-bit target (as the Kani proofs of from_usize / into_usize are)
global size_of usize == 8;

#[verifier::external_trait_specification]
pub trait ExFromStr: Sized {
    type ExternalTraitSpecificationFor: core::str::FromStr;
    type Err;
    fn from_str(s: &str) -> Result<Self, Self::Err>;
}

pub struct VNum;
pub type DefaultNumericTypes = VNum;
pub struct VInt(pub i64);
pub struct VFloat(pub f64);

impl Clone for VNum { fn clone(&self) -> (r: Self) { VNum } }
impl PartialEq for VNum { #[verifier::external_body] fn eq(&self, o: &Self) -> (r: bool) { true } }

impl Clone for VInt { fn clone(&self) -> (r: Self) ensures r == *self { VInt(self.0) } }
impl vstd::std_specs::cmp::PartialEqSpecImpl for VInt {
    open spec fn obeys_eq_spec() -> bool { true }
    open spec fn eq_spec(&self, o: &Self) -> bool { self.0 == o.0 }
}
impl PartialEq for VInt { fn eq(&self, o: &Self) -> (r: bool) { self.0 == o.0 } }
impl Eq for VInt {}
pub open spec fn int_ord(a: int, b: int) -> core::cmp::Ordering {
    if a < b { core::cmp::Ordering::Less } else if a == b { core::cmp::Ordering::Equal } else { core::cmp::Ordering::Greater }
}
impl vstd::std_specs::cmp::PartialOrdSpecImpl for VInt {
    open spec fn obeys_partial_cmp_spec() -> bool { true }
    open spec fn partial_cmp_spec(&self, o: &Self) -> Option<core::cmp::Ordering> { Some(int_ord(self.0 as int, o.0 as int)) }
}
impl PartialOrd for VInt {
    #[verifier::external_body]
    fn partial_cmp(&self, o: &Self) -> (r: Option<core::cmp::Ordering>) { self.0.partial_cmp(&o.0) }
}
impl vstd::std_specs::cmp::OrdSpecImpl for VInt {
    open spec fn obeys_cmp_spec() -> bool { true }
    open spec fn cmp_spec(&self, o: &Self) -> core::cmp::Ordering { int_ord(self.0 as int, o.0 as int) }
}
impl Ord for VInt {
    #[verifier::external_body]
    fn cmp(&self, o: &Self) -> (r: core::cmp::Ordering) { self.0.cmp(&o.0) }
}

// ---- floats: IEEE-754 double operations are total deterministic functions of their operands;
// ---- they are left uninterpreted (not treated as reals).
pub uninterp spec fn f_add(a: VFloat, b: VFloat) -> VFloat;
pub uninterp spec fn f_sub(a: VFloat, b: VFloat) -> VFloat;
pub uninterp spec fn f_mul(a: VFloat, b: VFloat) -> VFloat;
pub uninterp spec fn f_div(a: VFloat, b: VFloat) -> VFloat;
pub uninterp spec fn f_rem(a: VFloat, b: VFloat) -> VFloat;
pub uninterp spec fn f_neg(a: VFloat) -> VFloat;
pub uninterp spec fn f_pow(a: VFloat, b: VFloat) -> VFloat;
pub uninterp spec fn f_eq(a: VFloat, b: VFloat) -> bool;
pub uninterp spec fn f_cmp(a: VFloat, b: VFloat) -> Option<core::cmp::Ordering>;
pub uninterp spec fn i2f(a: VInt) -> VFloat;
pub uninterp spec fn f2i(a: VFloat) -> VInt;

impl Clone for VFloat { #[verifier::external_body] fn clone(&self) -> (r: Self) ensures r == *self { VFloat(self.0) } }
impl vstd::std_specs::cmp::PartialEqSpecImpl for VFloat {
    open spec fn obeys_eq_spec() -> bool { true }
    open spec fn eq_spec(&self, o: &Self) -> bool { f_eq(*self, *o) }
}
impl PartialEq for VFloat { #[verifier::external_body] fn eq(&self, o: &Self) -> (r: bool) { self.0 == o.0 } }
impl vstd::std_specs::cmp::PartialOrdSpecImpl for VFloat {
    open spec fn obeys_partial_cmp_spec() -> bool { true }
    open spec fn partial_cmp_spec(&self, o: &Self) -> Option<core::cmp::Ordering> { f_cmp(*self, *o) }
}
impl PartialOrd for VFloat {
    #[verifier::external_body]
    fn partial_cmp(&self, o: &Self) -> (r: Option<core::cmp::Ordering>) { self.0.partial_cmp(&o.0) }
}

} // verus!

macro_rules! vf_binop { ($tr:ident, $spec:ident, $m:ident, $req:ident, $sp:ident, $obeys:ident, $f:ident, $op:tt) => {
::vstd::prelude::verus! {
impl vstd::std_specs::ops::$spec<VFloat> for VFloat {
    open spec fn $obeys() -> bool { true }
    open spec fn $req(self, rhs: VFloat) -> bool { true }
    open spec fn $sp(self, rhs: VFloat) -> VFloat { $f(self, rhs) }
}
impl core::ops::$tr for VFloat {
    type Output = VFloat;
    #[verifier::external_body]
    fn $m(self, o: VFloat) -> VFloat { VFloat(self.0 $op o.0) }
}
}
} }
vf_binop!(Add, AddSpecImpl, add, add_req, add_spec, obeys_add_spec, f_add, +);
vf_binop!(Sub, SubSpecImpl, sub, sub_req, sub_spec, obeys_sub_spec, f_sub, -);
vf_binop!(Mul, MulSpecImpl, mul, mul_req, mul_spec, obeys_mul_spec, f_mul, *);
vf_binop!(Div, DivSpecImpl, div, div_req, div_spec, obeys_div_spec, f_div, /);
vf_binop!(Rem, RemSpecImpl, rem, rem_req, rem_spec, obeys_rem_spec, f_rem, %);

::vstd::prelude::verus! {
impl vstd::std_specs::ops::NegSpecImpl for VFloat {
    open spec fn obeys_neg_spec() -> bool { true }
    open spec fn neg_req(self) -> bool { true }
    open spec fn neg_spec(self) -> VFloat { f_neg(self) }
}
impl core::ops::Neg for VFloat {
    type Output = VFloat;
    #[verifier::external_body]
    fn neg(self) -> VFloat { VFloat(-self.0) }
}
} // verus!

impl std::fmt::Debug for VNum { fn fmt(&self, f: &mut std::fmt::Formatter) -> std::fmt::Result { write!(f, "VNum") } }
impl std::fmt::Debug for VInt { fn fmt(&self, f: &mut std::fmt::Formatter) -> std::fmt::Result { std::fmt::Debug::fmt(&self.0, f) } }
impl std::fmt::Debug for VFloat { fn fmt(&self, f: &mut std::fmt::Formatter) -> std::fmt::Result { std::fmt::Debug::fmt(&self.0, f) } }
impl std::fmt::Display for VInt { fn fmt(&self, f: &mut std::fmt::Formatter) -> std::fmt::Result { std::fmt::Display::fmt(&self.0, f) } }
impl std::fmt::Display for VFloat { fn fmt(&self, f: &mut std::fmt::Formatter) -> std::fmt::Result { std::fmt::Display::fmt(&self.0, f) } }
impl std::str::FromStr for VInt { type Err = (); fn from_str(s: &str) -> Result<Self, ()> { s.parse::<i64>().map(VInt).map_err(|_| ()) } }
impl std::str::FromStr for VFloat { type Err = (); fn from_str(s: &str) -> Result<Self, ()> { s.parse::<f64>().map(VFloat).map_err(|_| ()) } }

::vstd::prelude::verus! {
// ---- assumed: a String is determined by its character sequence
#[verifier::external_body]
pub broadcast proof fn axiom_string_ext(a: String, b: String)
    ensures #[trigger] a@ == #[trigger] b@ ==> a == b
{}
// the String with a given character sequence (total inverse of the view, by extensionality)
pub uninterp spec fn string_of(s: Seq<char>) -> String;
#[verifier::external_body]
pub broadcast proof fn axiom_string_of(s: Seq<char>)
    ensures (#[trigger] string_of(s))@ == s
{}
// String keys in std::collections::HashMap: String's Hash/Eq are lawful; a &str key addresses the String with the same characters
#[verifier::external_body]
pub broadcast proof fn axiom_string_obeys_key_model()
    ensures #[trigger] vstd::std_specs::hash::obeys_key_model::<String>()
{}
#[verifier::external_body]
pub broadcast proof fn axiom_contains_str_key<V>(m: Map<String, V>, k: &str)
    ensures #[trigger] vstd::std_specs::hash::contains_borrowed_key::<String, V, str>(m, k) <==> m.contains_key(string_of(k@))
{}
#[verifier::external_body]
pub broadcast proof fn axiom_maps_str_key_to_value<V>(m: Map<String, V>, k: &str, v: V)
    ensures #[trigger] vstd::std_specs::hash::maps_borrowed_key_to_value::<String, V, str>(m, k, v) <==> (m.contains_key(string_of(k@)) && m[string_of(k@)] == v)
{}
// HashMap::get_mut (no vstd specification): the returned reference addresses the stored value;
// writing through it updates exactly that entry
pub uninterp spec fn hm_key_mutated<K, V, Q: ?Sized>(old_m: Map<K, V>, new_m: Map<K, V>, k: &Q, v: V) -> bool;
#[verifier::external_body]
pub broadcast proof fn axiom_hm_deref_key_mutated<K, V>(old_m: Map<K, V>, new_m: Map<K, V>, k: &K, v: V)
    ensures #[trigger] hm_key_mutated::<K, V, K>(old_m, new_m, k, v) <==> new_m == old_m.insert(*k, v)
{}
pub assume_specification<'a, K, V, S, A, Q> [std::collections::HashMap::<K, V, S, A>::get_mut] (m: &'a mut std::collections::HashMap<K, V, S, A>, k: &Q) -> (r: std::option::Option<&'a mut V>)
where
    A: std::alloc::Allocator,
    K: std::cmp::Eq + std::hash::Hash + std::borrow::Borrow<Q>,
    Q: std::marker::MetaSized + std::hash::Hash + std::cmp::Eq + ?Sized,
    S: std::hash::BuildHasher,
ensures
    vstd::std_specs::hash::obeys_key_model::<K>() && vstd::std_specs::hash::builds_valid_hashers::<S>() ==> match r {
        Some(v) => vstd::std_specs::hash::maps_borrowed_key_to_value(old(m)@, k, *v)
                   && hm_key_mutated(old(m)@, final(m)@, k, *final(v)),
        None => !vstd::std_specs::hash::contains_borrowed_key(old(m)@, k) && final(m)@ == old(m)@,
    };
// ToString for String / char (vstd specifies the blanket impl only for str)
#[verifier::external_body]
pub broadcast proof fn axiom_to_string_string(t: &String, res: String)
    ensures #[trigger] vstd::string::to_string_from_display_ensures::<String>(t, res) <==> t@ == res@ {}
#[verifier::external_body]
pub broadcast proof fn axiom_to_string_char(t: &char, res: String)
    ensures #[trigger] vstd::string::to_string_from_display_ensures::<char>(t, res) <==> res@ == seq![*t] {}
pub broadcast group group_string_keys {
    axiom_to_string_string, axiom_to_string_char,
    axiom_hm_deref_key_mutated, axiom_string_partial_cmp,
    axiom_string_ext, axiom_string_of, axiom_string_obeys_key_model, axiom_contains_str_key, axiom_maps_str_key_to_value,
}
// std::string::String items without a vstd specification
pub assume_specification [std::string::String::with_capacity](n: usize) -> (r: String) ensures r@ == Seq::<char>::empty();
// String::len is the length in bytes (a function of the characters); never more than isize::MAX (std invariant)
pub uninterp spec fn str_byte_len(s: Seq<char>) -> int;
#[verifier::external_body]
pub broadcast proof fn axiom_str_byte_len_bound(s: Seq<char>)
    ensures 0 <= #[trigger] str_byte_len(s) <= isize::MAX as int
{}
pub assume_specification [std::string::String::len](s: &String) -> (r: usize) ensures r as int <= isize::MAX as int, r as int == str_byte_len(s@);
// <[Value]>::contains uses the derived equality of values
pub uninterp spec fn slice_contains_spec<T>(s: Seq<T>, x: T) -> bool;
pub assume_specification<T: PartialEq> [<[T]>::contains](s: &[T], x: &T) -> (r: bool) ensures r == slice_contains_spec(s@, *x);
#[verifier::external_body]
pub broadcast proof fn axiom_slice_contains_value(s: Seq<Value>, x: Value)
    ensures #[trigger] slice_contains_spec::<Value>(s, x) == seq_contains(s, x)
{}
// String ordering is the lexicographic order str_cmp of the character sequences (std: `impl Ord for str`)
pub uninterp spec fn str_cmp(a: Seq<char>, b: Seq<char>) -> core::cmp::Ordering;
#[verifier::external_body]
pub broadcast proof fn axiom_string_partial_cmp(a: String, b: String)
    ensures
        <String as vstd::std_specs::cmp::PartialOrdSpec>::obeys_partial_cmp_spec(),
        #[trigger] <String as vstd::std_specs::cmp::PartialOrdSpec>::partial_cmp_spec(&a, &b) == Some(str_cmp(a@, b@)),
{}
// Vec<Value>: From<&[Value]> clones the elements
pub uninterp spec fn slice_to_vec_trigger<T>(s: Seq<T>, r: Vec<T>) -> bool;
pub assume_specification<'a, T: Clone> [<Vec<T> as From<&'a [T]>>::from](s: &[T]) -> (r: Vec<T>)
    ensures
        r.len() == s.len(),
        forall|i: int| 0 <= i < s.len() ==> vstd::pervasive::cloned::<T>(#[trigger] s@[i], r@[i]),
        slice_to_vec_trigger(s@, r);
pub broadcast proof fn lemma_slice_to_vec_value(s: Seq<Value>, r: Vec<Value>)
    requires
        #[trigger] slice_to_vec_trigger(s, r),
        r.len() == s.len(),
        forall|i: int| 0 <= i < s.len() ==> vstd::pervasive::cloned::<Value>(#[trigger] s[i], r@[i]),
    ensures r@ == s
{
    assert forall|i: int| 0 <= i < s.len() implies s[i] == r@[i] by {
        assert(vstd::pervasive::cloned::<Value>(s[i], r@[i]));
    }
    assert(r@ =~= s);
}
// the Vec with a given element sequence (total inverse of the view, by extensionality)
pub uninterp spec fn vec_of(s: Seq<Value>) -> Vec<Value>;
#[verifier::external_body]
pub broadcast proof fn axiom_vec_of(s: Seq<Value>)
    ensures (#[trigger] vec_of(s))@ == s
{}
// user / builtin functions are opaque to Verus
#[verifier::external_type_specification]
#[verifier::external_body]
pub struct ExFunction(crate::function::Function);
pub assume_specification [Function::call](f: &Function, argument: &Value) -> (r: EvalexprResultValue)
    ensures r == fn_call_spec(*f, *argument);
pub assume_specification [<Function as Clone>::clone](f: &Function) -> (r: Function) ensures r == *f;
pub assume_specification [crate::function::builtin::builtin_function](identifier: &str) -> (r: Option<Function>)
    ensures r == builtin_spec(identifier@);

#[verifier::external_body]
pub broadcast proof fn axiom_vec_value_ext(a: Vec<Value>, b: Vec<Value>)
    ensures #[trigger] a@ == #[trigger] b@ ==> a == b
{}
// derived PartialEq of the crate's enums (structural; floats by IEEE ==)
pub assume_specification [<ValueType as PartialEq>::eq](a: &ValueType, b: &ValueType) -> (r: bool) ensures r == (*a == *b);
pub assume_specification [<Value as PartialEq>::eq](a: &Value, b: &Value) -> (r: bool) ensures r == value_eq(*a, *b);
pub assume_specification [<Operator as PartialEq>::eq](a: &Operator, b: &Operator) -> (r: bool) ensures r == op_eq(*a, *b);
// the same facts through vstd's spec traits (used for comparisons through references, e.g. `a == &Operator::RootNode`)
impl vstd::std_specs::cmp::PartialEqSpecImpl for Operator {
    open spec fn obeys_eq_spec() -> bool { true }
    open spec fn eq_spec(&self, o: &Operator) -> bool { op_eq(*self, *o) }
}
impl vstd::std_specs::cmp::PartialEqSpecImpl for Value {
    open spec fn obeys_eq_spec() -> bool { true }
    open spec fn eq_spec(&self, o: &Value) -> bool { value_eq(*self, *o) }
}
pub assume_specification [<Value as Clone>::clone](v: &Value) -> (r: Value) ensures r == *v;
pub assume_specification [<Operator as Clone>::clone](v: &Operator) -> (r: Operator) ensures r == *v;
pub assume_specification [<EvalexprError as Clone>::clone](v: &EvalexprError) -> (r: EvalexprError) ensures r == *v;
pub assume_specification [<Token as Clone>::clone](v: &Token) -> (r: Token) ensures r == *v;
pub assume_specification [<PartialToken as Clone>::clone](v: &PartialToken) -> (r: PartialToken) ensures r == *v;
pub assume_specification [<Node as Clone>::clone](v: &Node) -> (r: Node) ensures r == *v;
} // verus!

::vstd::prelude::verus! {
// ---- std::iter::Peekable (no vstd specification): ghost view = the remaining items
#[verifier::external_type_specification]
#[verifier::external_body]
#[verifier::reject_recursive_types(I)]
pub struct ExPeekable<I: Iterator>(std::iter::Peekable<I>);
// remaining items: vstd's (prophetic) IteratorSpec view; Peekable is assumed to obey vstd's iterator laws,
// which gives `next` its specification (first remaining item, rest shifted)
#[verifier::prophetic]
pub open spec fn pk_rem<I: Iterator>(p: &std::iter::Peekable<I>) -> Seq<I::Item> { vstd::std_specs::iter::IteratorSpec::remaining(p) }
#[verifier::external_body]
pub broadcast proof fn axiom_peekable_laws<I: Iterator>(p: &std::iter::Peekable<I>)
    ensures #[trigger] vstd::std_specs::iter::IteratorSpec::obeys_prophetic_iter_laws(p)
{}
// a non-prophetic termination measure: the number of remaining items (determined by the current state for the
// iterators used here: Peekable over str::Chars / slice::Iter)
pub uninterp spec fn pk_len<I: Iterator>(p: &std::iter::Peekable<I>) -> nat;
#[verifier::external_body]
pub broadcast proof fn axiom_pk_len<I: Iterator>(p: &std::iter::Peekable<I>)
    ensures #[trigger] pk_len(p) == pk_rem(p).len()
{}
pub assume_specification<'a, I: Iterator>[ std::iter::Peekable::<I>::peek ](p: &'a mut std::iter::Peekable<I>) -> (r: Option<&'a I::Item>)
    ensures
        pk_rem(final(p)) == pk_rem(old(p)),
        pk_rem(old(p)).len() == 0 ==> r.is_none(),
        pk_rem(old(p)).len() > 0 ==> r.is_some() && *r.unwrap() == pk_rem(old(p))[0];
// X13: `tokens.iter().peekable()` / `string.chars().peekable()` are outlined into these helpers (Verus cannot
// attach a specification to the provided trait method Iterator::peekable); the body is the original expression
#[verifier::external_body]
pub fn peekable_tokens<'a>(tokens: &'a Vec<Token>) -> (r: std::iter::Peekable<core::slice::Iter<'a, Token>>)
    ensures pk_rem(&r).len() == tokens.len(), forall|i: int| 0 <= i < tokens.len() ==> *#[trigger] pk_rem(&r)[i] == tokens[i]
{ tokens.iter().peekable() }
#[verifier::external_body]
pub fn peekable_chars<'a>(string: &'a str) -> (r: std::iter::Peekable<std::str::Chars<'a>>)
    ensures pk_rem(&r) == string@
{ string.chars().peekable() }

// ---- core::mem::discriminant: equal exactly for values of the same enum variant
#[verifier::external_type_specification]
#[verifier::external_body]
#[verifier::reject_recursive_types(T)]
pub struct ExDiscriminant<T>(core::mem::Discriminant<T>);
pub uninterp spec fn discr_spec<T>(v: T) -> core::mem::Discriminant<T>;
pub assume_specification<T>[ core::mem::discriminant::<T> ](v: &T) -> (r: core::mem::Discriminant<T>) ensures r == discr_spec(*v);
pub assume_specification<T>[ <core::mem::Discriminant<T> as PartialEq>::eq ](a: &core::mem::Discriminant<T>, b: &core::mem::Discriminant<T>) -> (r: bool) ensures r == (*a == *b);
pub open spec fn op_variant(op: Operator) -> int {
    match op {
        Operator::RootNode => 0, Operator::Add => 1, Operator::Sub => 2, Operator::Neg => 3, Operator::Mul => 4, Operator::Div => 5,
        Operator::Mod => 6, Operator::Exp => 7, Operator::Eq => 8, Operator::Neq => 9, Operator::Gt => 10, Operator::Lt => 11,
        Operator::Geq => 12, Operator::Leq => 13, Operator::And => 14, Operator::Or => 15, Operator::Not => 16, Operator::Assign => 17,
        Operator::AddAssign => 18, Operator::SubAssign => 19, Operator::MulAssign => 20, Operator::DivAssign => 21, Operator::ModAssign => 22,
        Operator::ExpAssign => 23, Operator::AndAssign => 24, Operator::OrAssign => 25, Operator::Tuple => 26, Operator::Chain => 27,
        Operator::Const { .. } => 28, Operator::VariableIdentifierWrite { .. } => 29, Operator::VariableIdentifierRead { .. } => 30,
        Operator::FunctionIdentifier { .. } => 31,
    }
}
#[verifier::external_body]
pub broadcast proof fn axiom_discr_operator(a: Operator, b: Operator)
    ensures (#[trigger] discr_spec(a) == #[trigger] discr_spec(b)) <==> op_variant(a) == op_variant(b)
{}
} // verus!

::vstd::prelude::verus! {
// ---- stage-2 lexer support
#[verifier::external_body]
pub fn fmt_sci(literal: &String, second: &PartialToken, third: &PartialToken) -> (r: String)
    ensures r@ == sci_text(literal@, *second, *third)
{ format!("{}{}{}", literal, second, third) }
#[verifier::external_type_specification]
#[verifier::external_body]
pub struct ExParseBoolError(core::str::ParseBoolError);
// Vec::extend appends the items of its argument; an Option yields 0 or 1 items
pub uninterp spec fn into_iter_items<T, I: IntoIterator<Item = T>>(it: I) -> Seq<T>;
pub assume_specification<T, A: core::alloc::Allocator, I: IntoIterator<Item = T>> [<Vec<T, A> as Extend<T>>::extend::<I>](v: &mut Vec<T, A>, it: I)
    ensures final(v)@ == old(v)@ + into_iter_items::<T, I>(it);
#[verifier::external_body]
pub broadcast proof fn axiom_option_items<T>(o: Option<T>)
    ensures #[trigger] into_iter_items::<T, Option<T>>(o) == (match o { Some(x) => seq![x], None => Seq::<T>::empty() })
{}
// str::parse::<F> is F's FromStr (std / the numeric instance): a deterministic, uninterpreted function of the text
pub uninterp spec fn parse_spec<F: core::str::FromStr>(s: Seq<char>) -> Result<F, F::Err>;
pub assume_specification<F: core::str::FromStr> [str::parse::<F>](s: &str) -> (r: Result<F, F::Err>)
    ensures r == parse_spec::<F>(s@);
// generic iterators: vstd's prophetic view and its laws, under short names
#[verifier::prophetic]
pub open spec fn it_rem<I: Iterator>(i: &I) -> Seq<I::Item> { vstd::std_specs::iter::IteratorSpec::remaining(i) }
#[verifier::prophetic]
pub open spec fn it_laws<I: Iterator>(i: &I) -> bool { vstd::std_specs::iter::IteratorSpec::obeys_prophetic_iter_laws(i) }
pub open spec fn it_dec<I: Iterator>(i: &I) -> Option<nat> { vstd::std_specs::iter::IteratorSpec::decrease(i) }
// Peekable over a finite iterator has a termination measure
#[verifier::external_body]
pub broadcast proof fn axiom_peekable_dec<I: Iterator>(p: &std::iter::Peekable<I>)
    ensures (#[trigger] vstd::std_specs::iter::IteratorSpec::decrease(p)) is Some
{}
#[verifier::external_body]
pub fn fmt_escape(c: char) -> (r: String) { format!("\\{}", c) }
// X14: vstd declares char::is_whitespace without a result specification and a second one cannot be added, so the
// call is outlined (body = original expression); assumed: it is a function of the character (Unicode White_Space)
#[verifier::external_body]
pub fn is_ws(c: char) -> (r: bool) ensures r == char_is_ws(c) { c.is_whitespace() }
// derived PartialEq of PartialToken (only comparisons against the unit variants are used)
pub open spec fn pt_eq(a: PartialToken, b: PartialToken) -> bool {
    match (a, b) { (PartialToken::Token(x), PartialToken::Token(y)) => tok_eq(x, y), _ => a == b }
}
pub uninterp spec fn tok_eq(a: Token, b: Token) -> bool;
pub assume_specification [<PartialToken as PartialEq>::eq](a: &PartialToken, b: &PartialToken) -> (r: bool) ensures r == pt_eq(*a, *b);
} // verus!

::vstd::prelude::verus! {
// ---- str predicates that small edits tend to introduce (widening of the accepted subset; std semantics trusted)
pub uninterp spec fn ends_with_spec<P>(s: Seq<char>, p: P) -> bool;
pub uninterp spec fn starts_with_spec<P>(s: Seq<char>, p: P) -> bool;
pub uninterp spec fn contains_pat_spec<P>(s: Seq<char>, p: P) -> bool;
#[verifier::allow(undeclared_external_trait)]
pub assume_specification<P: core::str::pattern::Pattern> [str::ends_with::<P>](s: &str, pat: P) -> (r: bool)
    where for<'a> P::Searcher<'a>: core::str::pattern::ReverseSearcher<'a>
    ensures r == ends_with_spec(s@, pat);
#[verifier::allow(undeclared_external_trait)]
pub assume_specification<P: core::str::pattern::Pattern> [str::starts_with::<P>](s: &str, pat: P) -> (r: bool)
    ensures r == starts_with_spec(s@, pat);
#[verifier::allow(undeclared_external_trait)]
pub assume_specification<P: core::str::pattern::Pattern> [str::contains::<P>](s: &str, pat: P) -> (r: bool)
    ensures r == contains_pat_spec(s@, pat);
#[verifier::external_body]
pub broadcast proof fn axiom_ends_with_char(s: Seq<char>, c: char)
    ensures #[trigger] ends_with_spec::<char>(s, c) == (s.len() > 0 && s.last() == c)
{}
#[verifier::external_body]
pub broadcast proof fn axiom_starts_with_char(s: Seq<char>, c: char)
    ensures #[trigger] starts_with_spec::<char>(s, c) == (s.len() > 0 && s[0] == c)
{}
} // verus!

::vstd::prelude::verus! {
// ---- str::get with a byte range (used by str::substring): std semantics, uninterpreted
pub uninterp spec fn str_get_spec<'a, I: core::slice::SliceIndex<str>>(s: &'a str, i: I) -> Option<&'a I::Output>;
#[verifier::allow(undeclared_external_trait)]
pub assume_specification<'a, I: core::slice::SliceIndex<str>> [str::get::<I>](s: &'a str, i: I) -> (r: Option<&'a I::Output>)
    ensures r == str_get_spec(s, i);
#[verifier::external_body]
pub broadcast proof fn axiom_str_get_range<'a>(s: &'a str, i: core::ops::Range<usize>)
    ensures
        (#[trigger] str_get_spec::<core::ops::Range<usize>>(s, i) is Some) == (str_slice(s@, i.start as int, i.end as int) is Some),
        str_get_spec::<core::ops::Range<usize>>(s, i) matches Some(x) ==> x@ == str_slice(s@, i.start as int, i.end as int).unwrap(),
{}
} // verus!

::vstd::prelude::verus! {
pub assume_specification [str::to_lowercase](s: &str) -> (r: String) ensures r@ == lower_spec(s@);
pub assume_specification [str::to_uppercase](s: &str) -> (r: String) ensures r@ == upper_spec(s@);
// the ASCII-only case mappings are different functions from the Unicode ones (they differ on non-ASCII letters)
pub uninterp spec fn ascii_upper_spec(s: Seq<char>) -> Seq<char>;
pub uninterp spec fn ascii_lower_spec(s: Seq<char>) -> Seq<char>;
pub assume_specification [str::to_ascii_uppercase](s: &str) -> (r: String) ensures r@ == ascii_upper_spec(s@);
pub assume_specification [str::to_ascii_lowercase](s: &str) -> (r: String) ensures r@ == ascii_lower_spec(s@);
pub assume_specification [str::make_ascii_uppercase](s: &mut str) ensures final(s)@ == ascii_upper_spec(old(s)@);
pub assume_specification [str::make_ascii_lowercase](s: &mut str) ensures final(s)@ == ascii_lower_spec(old(s)@);
pub assume_specification<'a> [str::trim](s: &'a str) -> (r: &'a str) ensures r@ == trim_spec(s@);
pub assume_specification [Value::str_from](v: &Value) -> (r: String) ensures r@ == str_from_spec(*v);
} // verus!

::vstd::prelude::verus! {
// ---- integer literal parsing support (parse_dec_or_hex)
pub assume_specification [<VInt as core::str::FromStr>::from_str](s: &str) -> (r: Result<VInt, ()>)
    ensures r == (match dec_int_spec(s@) { Some(i) => Ok::<VInt, ()>(i), None => Err(()) });
pub uninterp spec fn strip_prefix_spec<'a, P>(s: &'a str, p: P) -> Option<&'a str>;
#[verifier::allow(undeclared_external_trait)]
pub assume_specification<'a, P: core::str::pattern::Pattern> [str::strip_prefix::<P>](s: &'a str, p: P) -> (r: Option<&'a str>)
    ensures r == strip_prefix_spec(s, p);
#[verifier::external_body]
pub broadcast proof fn axiom_strip_prefix_str<'a, 'b>(s: &'a str, p: &'b str)
    ensures
        (#[trigger] strip_prefix_spec::<&'b str>(s, p) is Some) == (s@.len() >= p@.len() && s@.take(p@.len() as int) == p@),
        strip_prefix_spec::<&'b str>(s, p) matches Some(t) ==> t@ == s@.skip(p@.len() as int),
{}
} // verus!

::vstd::prelude::verus! {
// ---- more std predicates that small edits introduce (uninterpreted; widening of the accepted subset only)
pub uninterp spec fn eq_ignore_case_spec(a: Seq<char>, b: Seq<char>) -> bool;
pub assume_specification [str::eq_ignore_ascii_case](a: &str, b: &str) -> (r: bool) ensures r == eq_ignore_case_spec(a@, b@);
pub uninterp spec fn char_pred_spec(which: int, c: char) -> bool;
pub assume_specification [char::is_ascii_digit](c: &char) -> (r: bool) ensures r == char_pred_spec(1, *c);
pub assume_specification [char::is_alphabetic](c: char) -> (r: bool) ensures r == char_pred_spec(2, c);
pub assume_specification [char::is_alphanumeric](c: char) -> (r: bool) ensures r == char_pred_spec(3, c);
pub assume_specification [char::is_numeric](c: char) -> (r: bool) ensures r == char_pred_spec(4, c);
pub assume_specification [char::is_ascii](c: &char) -> (r: bool) ensures r == char_pred_spec(5, *c);
pub assume_specification [char::is_ascii_alphabetic](c: &char) -> (r: bool) ensures r == char_pred_spec(6, *c);
pub assume_specification [char::is_ascii_hexdigit](c: &char) -> (r: bool) ensures r == char_pred_spec(7, *c);
pub assume_specification [char::is_ascii_whitespace](c: &char) -> (r: bool) ensures r == char_pred_spec(8, *c);
pub assume_specification [char::is_ascii_punctuation](c: &char) -> (r: bool) ensures r == char_pred_spec(9, *c);
pub assume_specification [char::is_control](c: char) -> (r: bool) ensures r == char_pred_spec(10, c);
// ---- X22: the formatting machinery behind `write!` / `format!` and nested Display calls, as opaque calls that
// ---- return normally (assumption: std formatting of std types, derived Debug, and `Formatter::write_fmt` do not panic;
// ---- a nested Display call on a crate type is covered by that type's own verified copy)
// (vstd already declares core::fmt::Formatter and core::fmt::Error)
pub assume_specification<Idx> [std::ops::RangeInclusive::<Idx>::start] (_0: &std::ops::RangeInclusive<Idx>) -> &Idx;
pub assume_specification<Idx> [std::ops::RangeInclusive::<Idx>::end] (_0: &std::ops::RangeInclusive<Idx>) -> &Idx;
#[verifier::external_body]
pub fn fmt_write(f: &mut core::fmt::Formatter<'_>) -> (r: Result<(), core::fmt::Error>) { Ok(()) }
#[verifier::external_body]
pub fn fmt_format() -> (r: String) { String::new() }
#[verifier::external_body]
pub fn fmt_nested<T>(x: &T, f: &mut core::fmt::Formatter<'_>) -> (r: Result<(), core::fmt::Error>) { Ok(()) }
// std::mem::take / replace: what is handed out is the old content (what is left behind by `take` is not specified here)
pub assume_specification<T> [std::mem::take] (dest: &mut T) -> (r: T) where T: std::default::Default, ensures r == *old(dest);
pub assume_specification<T> [std::mem::replace] (dest: &mut T, src: T) -> (r: T) ensures r == *old(dest), *final(dest) == src;
// a few more std functions a maintainer is likely to reach for (complete specifications only: an incomplete one would
// turn a harmless use into an unprovable obligation)
pub assume_specification [usize::abs_diff](a: usize, b: usize) -> (r: usize) ensures r as int == (if a >= b { a as int - b as int } else { b as int - a as int });
pub assume_specification<T> [<[T]>::swap](s: &mut [T], a: usize, b: usize)
    requires a < old(s)@.len(), b < old(s)@.len(),
    ensures final(s)@ == old(s)@.update(a as int, old(s)@[b as int]).update(b as int, old(s)@[a as int]);
pub assume_specification<T> [<[T]>::reverse](s: &mut [T]) ensures final(s)@ == old(s)@.reverse();
pub assume_specification<'a> [<core::str::Chars<'a> as Iterator>::count](c: core::str::Chars<'a>) -> (r: usize)
    ensures r == vstd::std_specs::iter::IteratorSpec::remaining(&c).len();
// ---- X23: `a |= b;` / `a &= b;` are rewritten to `a = vs_or(a, b);` / `a = vs_and(a, b);` because Verus rejects the
// ---- non-short-circuit `|` / `&` on bool.  Verified (not assumed) helpers; both operands are evaluated, as in the original.
pub trait VsOrAnd: Sized {
    spec fn s_or(self, o: Self) -> Self;
    spec fn s_and(self, o: Self) -> Self;
    fn vs_or_m(self, o: Self) -> (r: Self) ensures r == self.s_or(o);
    fn vs_and_m(self, o: Self) -> (r: Self) ensures r == self.s_and(o);
}
impl VsOrAnd for bool {
    open spec fn s_or(self, o: bool) -> bool { self || o }
    open spec fn s_and(self, o: bool) -> bool { self && o }
    fn vs_or_m(self, o: bool) -> (r: bool) { if self { true } else { o } }
    fn vs_and_m(self, o: bool) -> (r: bool) { if self { o } else { false } }
}
impl VsOrAnd for i64 {
    open spec fn s_or(self, o: i64) -> i64 { self | o }
    open spec fn s_and(self, o: i64) -> i64 { self & o }
    fn vs_or_m(self, o: i64) -> (r: i64) { self | o }
    fn vs_and_m(self, o: i64) -> (r: i64) { self & o }
}
impl VsOrAnd for usize {
    open spec fn s_or(self, o: usize) -> usize { self | o }
    open spec fn s_and(self, o: usize) -> usize { self & o }
    fn vs_or_m(self, o: usize) -> (r: usize) { self | o }
    fn vs_and_m(self, o: usize) -> (r: usize) { self & o }
}
impl VsOrAnd for u8 {
    open spec fn s_or(self, o: u8) -> u8 { self | o }
    open spec fn s_and(self, o: u8) -> u8 { self & o }
    fn vs_or_m(self, o: u8) -> (r: u8) { self | o }
    fn vs_and_m(self, o: u8) -> (r: u8) { self & o }
}
pub fn vs_or<T: VsOrAnd>(a: T, b: T) -> (r: T) ensures r == a.s_or(b) { a.vs_or_m(b) }
pub fn vs_and<T: VsOrAnd>(a: T, b: T) -> (r: T) ensures r == a.s_and(b) { a.vs_and_m(b) }
} // verus!
