// Kani harness prelude (spliced into a scratch copy of the crate as `mod verif_kani`).
#![allow(unused_imports, dead_code, unused_variables)]
use crate::value::numeric_types::{default_numeric_types::DefaultNumericTypes, EvalexprFloat, EvalexprInt, EvalexprNumericTypes};
use crate::{EvalexprError, Value};

type N = DefaultNumericTypes;

// truncating division / remainder, mirrored from contracts/00_vocab.vc (tdiv/trem over Euclidean division)
fn tdiv(a: i128, b: i128) -> i128 {
    if a >= 0 { if b > 0 { a.div_euclid(b) } else { -(a.div_euclid(-b)) } }
    else { if b > 0 { -((-a).div_euclid(b)) } else { (-a).div_euclid(-b) } }
}
fn trem(a: i128, b: i128) -> i128 { a - b * tdiv(a, b) }
