"""C10 / C01: every builtin through the real dispatch `builtin_function(name).unwrap().call(&arg)`, one Kani harness
per (builtin, concrete argument shape) with fully symbolic int / float / bool payloads.  The expected results are
transcribed from the README function table (contracts/builtins.md), not from builtin.rs.

A loop-free harness over full-domain payloads is a complete proof for that shape; string payloads are concrete
(labelled bounded).  libm functions are replaced by distinct tagged stubs: routing, argument order and int->float
promotion are decided for all payloads, the library function itself is trusted.
"""

H = []
EXTRA = ['-Z', 'stubbing', '-Z', 'unstable-options', '--cbmc-args', '--unwindset', 'memcmp.0:24']


class Gen:
    def __init__(self):
        self.decls = []
        self.vars = []   # (name, kind)

    def fresh(self, kind):
        n = 'v%d' % len(self.vars)
        ty = {'int': 'i64', 'float': 'f64', 'bool': 'bool'}[kind]
        self.decls.append('let %s: %s = kani::any();' % (n, ty))
        self.vars.append((n, kind))
        return n

    def value(self, shape):
        """-> (rust expression of type Value<N>, evalexpr expression text)"""
        k = shape[0]
        if k == 'int':
            v = self.fresh('int')
            return 'Value::<N>::Int(%s)' % v, v
        if k == 'float':
            v = self.fresh('float')
            return 'Value::<N>::Float(%s)' % v, v
        if k == 'bool':
            v = self.fresh('bool')
            return 'Value::<N>::Boolean(%s)' % v, v
        if k == 'empty':
            return 'Value::<N>::Empty', '()'
        if k == 'str':
            return 'Value::<N>::String(String::from(%s))' % rs_str(shape[1]), ev_str(shape[1])
        if k == 'tuple':
            parts = [self.value(s) for s in shape[1]]
            return 'Value::<N>::Tuple(vec![%s])' % ', '.join(p[0] for p in parts), '(%s)' % ', '.join(p[1] for p in parts)
        raise ValueError(shape)


def rs_str(t):
    return '"' + t.replace('\\', '\\\\').replace('"', '\\"') + '"'


def ev_str(t):
    return '"' + t.replace('\\', '\\\\').replace('"', '\\"') + '"'


def shape_name(shape):
    k = shape[0]
    if k == 'tuple':
        return 't' + ''.join(shape_name(s) for s in shape[1]) + 'e'
    if k == 'str':
        import zlib
        return 's%dx%03x' % (len(shape[1].encode()), zlib.crc32(shape[1].encode()) & 0xfff)
    return {'int': 'i', 'float': 'f', 'bool': 'b', 'empty': 'n'}[k]


CASES = []


def tag_asserts(code, cid):
    """every assertion of a case carries the case id, so a refuted check names its (builtin, shape)"""
    out = []
    i = 0
    while True:
        k = code.find('assert!(', i)
        if k < 0:
            out.append(code[i:])
            break
        j = k + len('assert!(')
        depth = 1
        while depth:
            ch = code[j]
            if ch == '(':
                depth += 1
            elif ch == ')':
                depth -= 1
            elif ch == '"':
                j += 1
                while code[j] != '"':
                    if code[j] == '\\':
                        j += 1
                    j += 1
            j += 1
        out.append(code[i:j - 1] + ', "case %s")' % cid)
        i = j
    return ''.join(out)


def add(name, shape, check, props=('C10', 'C01'), tier='quick', stubs=(), bounded=None, doc='', unwind=5):
    g = Gen()
    rv, ev = g.value(shape)
    cid = '%s_%s' % (name.replace('::', '_'), shape_name(shape))
    chk = check(g.vars) if callable(check) else check
    # every assertion of the case carries the case id, so a refuted check names its (builtin, shape)
    chk = tag_asserts(chk, cid)
    body = '    { // case %s: %s\n    ' % (cid, doc or '%s on shape %s' % (name, shape_name(shape))) + '\n    '.join(g.decls) + ('\n' if g.decls else '') + \
        '    let arg = %s;\n    let r = call(%s, &arg);\n    %s\n    core::mem::forget(r); core::mem::forget(arg);\n    }' % (rv, rs_str(name), chk)
    call_expr = '%s%s' % (name, ev if shape[0] == 'tuple' else '(%s)' % ev) if shape[0] != 'empty' else '%s()' % name
    CASES.append(dict(id=cid, builtin=name, tier=tier, stubs=list(stubs), bounded=bounded, body=body, unwind=unwind, props=list(props),
                      doc=doc or ('%s on shape %s' % (name, shape_name(shape))), call=call_expr, vars=list(g.vars)))


ERR = 'assert!(r.is_err());'
INT, FLT, BOOL, EMPTY = ('int',), ('float',), ('bool',), ('empty',)
STR = ('str', 'aB c')


def T(*s):
    return ('tuple', list(s))


def promote(v, kind):
    return '(%s as f64)' % v if kind == 'int' else v


# ---------------------------------------------------------------- math functions (libm routed through stubs)
UNARY = ['ln', 'log2', 'log10', 'exp', 'exp2', 'cos', 'acos', 'cosh', 'acosh', 'sin', 'asin', 'sinh', 'asinh', 'tan', 'atan', 'tanh',
         'atanh', 'sqrt', 'cbrt']
ROUND = ['floor', 'round', 'ceil']
BINARY = [('log', 'log'), ('pow', 'powf'), ('atan2', 'atan2'), ('hypot', 'hypot')]


def unary_check(fn):
    def chk(vars_):
        v, kind = vars_[0]
        return 'match &r { Ok(Value::Float(f)) => assert!(f.to_bits() == stub_%s(%s).to_bits()), _ => assert!(false) }' % (fn, promote(v, kind))
    return chk


for i, fn in enumerate(UNARY):
    name = 'math::' + fn
    for sh in (INT, FLT):
        add(name, sh, unary_check(fn), stubs=[('f64::' + fn, 'stub_' + fn)], tier='quick' if sh == FLT or i % 4 == 0 else 'thorough',
            doc='%s(x) is the double-precision library %s of x converted to float' % (name, fn))
    add(name, BOOL, ERR, tier='quick' if i % 6 == 0 else 'thorough', doc='%s rejects a boolean' % name)
    add(name, T(INT, INT), ERR, tier='thorough', doc='%s rejects a tuple' % name)
for fn in ROUND:
    for sh in (INT, FLT):
        add(fn, sh, lambda vars_, fn=fn: 'match &r { Ok(Value::Float(f)) => assert!(f.to_bits() == (%s).%s().to_bits()), _ => assert!(false) }' % (promote(*vars_[0]), fn),
            doc='%s(x) of x converted to float' % fn)
    add(fn, STR, ERR, tier='thorough', bounded='concrete string payload')
for name, std in BINARY:
    for sh in (T(INT, INT), T(FLT, INT), T(INT, FLT), T(FLT, FLT)):
        add('math::' + name, sh,
            lambda vars_, std=std: 'match &r { Ok(Value::Float(f)) => assert!(f.to_bits() == stub2_%s(%s, %s).to_bits()), _ => assert!(false) }'
            % (std, promote(*vars_[0]), promote(*vars_[1])),
            stubs=[('f64::' + std, 'stub2_' + std)], tier='quick' if sh in (T(FLT, INT), T(INT, FLT)) else 'thorough',
            doc='math::%s(a, b) is the library function on (a, b) in this order, both converted to float' % name)
    add('math::' + name, T(INT), ERR, tier='thorough')
    add('math::' + name, T(INT, INT, INT), ERR, doc='math::%s rejects three arguments' % name)
    add('math::' + name, FLT, ERR, tier='thorough')
for fn in ('is_nan', 'is_finite', 'is_infinite', 'is_normal'):
    for sh in (INT, FLT):
        add('math::' + fn, sh, lambda vars_, fn=fn: 'match &r { Ok(Value::Boolean(b)) => assert!(*b == (%s).%s()), _ => assert!(false) }' % (promote(*vars_[0]), fn),
            tier='quick' if sh == FLT else 'thorough')
    add('math::' + fn, EMPTY, ERR, tier='thorough')

# ---------------------------------------------------------------- math::abs
add('math::abs', INT, lambda v: 'match &r { Ok(Value::Int(x)) => { assert!(%s != i64::MIN); assert!(*x as i128 == (%s as i128).abs()); }, Ok(_) => assert!(false), Err(_) => assert!(%s == i64::MIN) }' % (v[0][0], v[0][0], v[0][0]),
    doc='math::abs is exact on integers; overflowing abs is an error')
add('math::abs', FLT, lambda v: 'match &r { Ok(Value::Float(x)) => assert!(x.to_bits() == %s.abs().to_bits()), _ => assert!(false) }' % v[0][0])
add('math::abs', BOOL, ERR)
add('math::abs', T(INT), ERR, tier='thorough')

# ---------------------------------------------------------------- typeof
for sh, txt in ((INT, 'int'), (FLT, 'float'), (BOOL, 'boolean'), (EMPTY, 'empty'), (STR, 'string'), (T(INT, BOOL), 'tuple'), (T(), 'tuple')):
    add('typeof', sh, 'match &r { Ok(Value::String(s)) => assert!(s == "%s"), _ => assert!(false) }' % txt, doc='typeof names the type of its argument',
        bounded='concrete string payload' if sh == STR else None)

# ---------------------------------------------------------------- min / max
def ext_check(which):
    # result is one of the arguments (same type and payload), and no argument is numerically smaller / larger
    cmp_ = '<=' if which == 'min' else '>='

    def chk(vars_):
        fl = [promote(v, k) for v, k in vars_]
        no_nan = ' && '.join('!%s.is_nan()' % f for (v, k), f in zip(vars_, fl) if k == 'float') or 'true'
        is_arg = ' || '.join(('matches!(&r, Ok(Value::Int(x)) if *x == %s)' % v) if k == 'int' else ('matches!(&r, Ok(Value::Float(x)) if x.to_bits() == %s.to_bits() || (*x == %s))' % (v, v)) for v, k in vars_)
        rf = 'match &r { Ok(Value::Int(x)) => *x as f64, Ok(Value::Float(x)) => *x, _ => f64::NAN }'
        ext = ' && '.join('rf %s %s' % (cmp_, f) for f in fl)
        return 'if %s { assert!(r.is_ok()); assert!(%s); let rf = %s; assert!(%s); }' % (no_nan, is_arg, rf, ext)
    return chk


for which in ('min', 'max'):
    for sh in (T(INT, INT), T(FLT, FLT), T(INT, FLT), T(FLT, INT), T(INT, FLT, INT)):
        add(which, sh, ext_check(which), tier='quick' if len(sh[1]) == 2 else 'thorough',
            doc='%s returns an argument that is numerically %s, keeping its type (NaN-free arguments)' % (which, 'smallest' if which == 'min' else 'largest'))
    for sh in (INT, FLT):
        add(which, sh, ext_check(which), doc='%s of one number is that number' % which)
    add(which, T(INT, BOOL), ERR)
    add(which, T(INT, T(INT)), ERR, tier='thorough')
    add(which, STR, ERR, tier='thorough', bounded='concrete string payload')

# ---------------------------------------------------------------- if
add('if', T(BOOL, INT, FLT), lambda v: 'if %s { assert!(matches!(&r, Ok(Value::Int(x)) if *x == %s)); } else { assert!(matches!(&r, Ok(Value::Float(x)) if x.to_bits() == %s.to_bits())); }' % (v[0][0], v[1][0], v[2][0]),
    doc='if(c, a, b) is a when c is true, else b')
add('if', T(BOOL, EMPTY, T(INT)), lambda v: 'if %s { assert!(matches!(&r, Ok(Value::Empty))); } else { assert!(matches!(&r, Ok(Value::Tuple(t)) if t.len() == 1 && matches!(&t[0], Value::Int(x) if *x == %s))); }' % (v[0][0], v[1][0]), tier='thorough')
add('if', T(INT, INT, INT), ERR, doc='if rejects a non-boolean condition')
add('if', T(BOOL, INT), ERR, doc='if rejects two arguments')
add('if', T(BOOL, INT, INT, INT), ERR, tier='thorough')
add('if', BOOL, ERR, tier='thorough')

# ---------------------------------------------------------------- contains / contains_any / len
add('contains', T(T(INT, INT), INT), lambda v: 'assert!(matches!(&r, Ok(Value::Boolean(b)) if *b == (%s == %s || %s == %s)));' % (v[0][0], v[2][0], v[1][0], v[2][0]),
    doc='contains(tuple, x) tells whether x is an element of the tuple')
add('contains', T(T(INT, BOOL), BOOL), lambda v: 'assert!(matches!(&r, Ok(Value::Boolean(b)) if *b == (%s == %s)));' % (v[1][0], v[2][0]), tier='thorough')
add('contains', T(T(), INT), 'assert!(matches!(&r, Ok(Value::Boolean(false))));', tier='thorough')
add('contains', T(T(INT), T(INT)), ERR, doc='contains rejects a tuple as the searched value')
add('contains', T(T(INT), EMPTY), ERR, tier='thorough')
add('contains', T(INT, INT), ERR, doc='contains rejects a non-tuple first argument')
add('contains', T(T(INT)), ERR, tier='thorough')
add('contains_any', T(T(INT, INT), T(INT, INT)), lambda v: 'assert!(matches!(&r, Ok(Value::Boolean(b)) if *b == (%s == %s || %s == %s || %s == %s || %s == %s)));'
    % (v[0][0], v[2][0], v[1][0], v[2][0], v[0][0], v[3][0], v[1][0], v[3][0]), doc='contains_any(a, b) tells whether some element of b is an element of a')
add('contains_any', T(T(INT), T(INT, T(INT))), ERR, doc='contains_any rejects a non-scalar element of the second tuple, wherever it stands')
add('contains_any', T(T(INT), T(INT, EMPTY)), ERR, doc='contains_any rejects an empty element of the second tuple, wherever it stands')
add('contains_any', T(T(INT), T(T(INT), INT)), ERR, tier='thorough')
add('contains_any', T(T(INT), INT), ERR)
add('contains_any', T(INT, T(INT)), ERR, tier='thorough')
add('contains_any', T(T(INT), T()), 'assert!(matches!(&r, Ok(Value::Boolean(false))));', tier='thorough')
for sh, n in ((T(), 0), (T(INT), 1), (T(INT, FLT, BOOL), 3), (T(T(INT, INT), EMPTY), 2)):
    add('len', sh, 'assert!(matches!(&r, Ok(Value::Int(x)) if *x == %d));' % n, tier='quick' if n in (0, 3) else 'thorough', doc='len of a tuple is its number of elements')
for txt in ('', 'abc', 'aä€'):
    add('len', ('str', txt), 'assert!(matches!(&r, Ok(Value::Int(x)) if *x == %d));' % len(txt.encode('utf-8')), bounded='concrete string payload',
        doc='len of a string is its length in bytes (the indexing unit of str::substring)')
add('len', INT, ERR)
add('len', EMPTY, ERR, tier='thorough')

# ---------------------------------------------------------------- bit operations
for name, op in (('bitand', '&'), ('bitor', '|'), ('bitxor', '^')):
    add(name, T(INT, INT), lambda v, op=op: 'assert!(matches!(&r, Ok(Value::Int(x)) if *x == (%s %s %s)));' % (v[0][0], op, v[1][0]), doc='%s is exact on integers' % name)
    add(name, T(INT, FLT), ERR, tier='thorough')
    add(name, T(INT), ERR, tier='thorough')
    add(name, INT, ERR, tier='thorough')
add('bitnot', INT, lambda v: 'assert!(matches!(&r, Ok(Value::Int(x)) if *x == !%s));' % v[0][0])
add('bitnot', FLT, ERR)
add('bitnot', T(INT, INT), ERR, tier='thorough')
add('shl', T(INT, INT), lambda v: 'assert!(r.is_ok()); if 0 <= %s && %s <= 63 { assert!(matches!(&r, Ok(Value::Int(x)) if *x == (((%s as i128) << (%s as u32)) as i64))); }' % (v[1][0], v[1][0], v[0][0], v[1][0]),
    doc='shl by 0..=63 bits is exact (wrapping to 64 bits); any amount returns normally')
add('shr', T(INT, INT), lambda v: 'assert!(r.is_ok()); if 0 <= %s && %s <= 63 { assert!(matches!(&r, Ok(Value::Int(x)) if *x == (((%s as i128) >> (%s as u32)) as i64))); }' % (v[1][0], v[1][0], v[0][0], v[1][0]),
    doc='shr by 0..=63 bits is exact; any amount returns normally')
for name in ('shl', 'shr'):
    add(name, T(INT, BOOL), ERR, tier='thorough')
    add(name, T(INT, INT, INT), ERR, tier='thorough')

# ---------------------------------------------------------------- str:: functions (string payloads concrete: bounded)
for txt, lo, up, tr in (('aB c', 'ab c', 'AB C', 'aB c'), ('  Äx ', '  äx ', '  ÄX ', 'Äx')):
    add('str::to_lowercase', ('str', txt), 'assert!(matches!(&r, Ok(Value::String(s)) if s == %s));' % rs_str(lo), bounded='concrete string payload', tier='thorough', unwind=40)
    add('str::to_uppercase', ('str', txt), 'assert!(matches!(&r, Ok(Value::String(s)) if s == %s));' % rs_str(up), bounded='concrete string payload', tier='thorough', unwind=40)
    add('str::trim', ('str', txt), 'assert!(matches!(&r, Ok(Value::String(s)) if s == %s));' % rs_str(tr), bounded='concrete string payload', tier='thorough', unwind=40)
for name in ('str::to_lowercase', 'str::to_uppercase', 'str::trim'):
    add(name, INT, ERR)
    add(name, T(('str', 'a')), ERR, tier='thorough', bounded='concrete string payload')
add('str::from', ('str', 'a"b'), 'assert!(matches!(&r, Ok(Value::String(s)) if s == "a\\"b"));', bounded='concrete string payload', doc='str::from of a string is the string')
add('str::from', EMPTY, 'assert!(matches!(&r, Ok(Value::String(s)) if s == "()"));')
add('str::from', BOOL, lambda v: 'assert!(matches!(&r, Ok(Value::String(s)) if s == (if %s { "true" } else { "false" })));' % v[0][0], unwind=20)
# str::substring: subject concrete (incl. multi-byte characters), indices fully symbolic; same unit as len (bytes);
# out-of-range indices and indices that do not fall on a character boundary are errors, never a panic
for txt in ('abc', 'aäb', '€'):
    n = len(txt.encode('utf-8'))
    bounds = [i for i in range(n + 1) if (txt.encode('utf-8')[:i].decode('utf-8', 'ignore').encode('utf-8') == txt.encode('utf-8')[:i])]
    isb = ' || '.join('k == %d' % b for b in bounds)
    chk3 = lambda v, n=n, isb=isb, txt=txt: ('let isb = |k: i64| %s; let a = %s; let b = %s; '
                                             'if 0 <= a && a <= b && b <= %d && isb(a) && isb(b) { assert!(matches!(&r, Ok(Value::String(s)) if s.as_bytes() == &%s.as_bytes()[a as usize..b as usize])); } else { assert!(r.is_err()); }'
                                             % (isb, v[0][0], v[1][0], n, rs_str(txt)))
    chk2 = lambda v, n=n, isb=isb, txt=txt: ('let isb = |k: i64| %s; let a = %s; '
                                             'if 0 <= a && a <= %d && isb(a) { assert!(matches!(&r, Ok(Value::String(s)) if s.as_bytes() == &%s.as_bytes()[a as usize..])); } else { assert!(r.is_err()); }'
                                             % (isb, v[0][0], n, rs_str(txt)))
    add('str::substring', T(('str', txt), INT, INT), chk3, bounded='concrete subject string %r, all i64 indices' % txt, unwind=20,
        doc='str::substring(s, a, b) is the byte range a..b of s, an error when out of range or not on a character boundary')
    add('str::substring', T(('str', txt), INT), chk2, bounded='concrete subject string %r, all i64 start indices' % txt, unwind=20, tier='quick' if txt != 'abc' else 'thorough')
add('str::substring', T(('str', 'ab')), ERR, bounded='concrete string payload')
add('str::substring', T(INT, INT, INT), ERR)
add('str::substring', T(('str', 'ab'), FLT), ERR, bounded='concrete string payload', tier='thorough')
add('str::substring', T(('str', 'ab'), INT, INT, INT), ERR, bounded='concrete string payload', tier='thorough')

PRELUDE = '''
fn call(name: &str, arg: &Value<N>) -> Result<Value<N>, EvalexprError<N>> {
    crate::function::builtin::builtin_function::<N>(name).unwrap().call(arg)
}
''' + '\n'.join('fn stub_%s(x: f64) -> f64 { f64::from_bits(x.to_bits().rotate_left(%d) ^ 0x%016x) }' % (fn, 3 + i, 0x5a5a000000000001 + 0x1111 * i) for i, fn in enumerate(UNARY)) + '\n' + \
    '\n'.join('fn stub2_%s(x: f64, y: f64) -> f64 { f64::from_bits(x.to_bits().rotate_left(%d) ^ y.to_bits().rotate_left(%d) ^ 0x%016x) }' % (std, 5 + i, 17 + i, 0x3c3c000000000007 + 0x2222 * i) for i, (n_, std) in enumerate(BINARY)) + '\n'


def pack(cases, prefix, tier, size=6):
    """several cases per harness: Kani's code generation costs ~2.5 s per harness, so one harness per case is too slow"""
    groups = []
    cur = []
    last_family = None
    for c in cases:
        fam = c['builtin'].split('::')[0] if c['builtin'].startswith('math::') else c['builtin']
        if cur and (len(cur) >= size or (fam != last_family and len(cur) >= size // 2)):
            groups.append(cur)
            cur = []
        cur.append(c)
        last_family = fam
    if cur:
        groups.append(cur)
    for i, grp in enumerate(groups):
        stubs = []
        for c in grp:
            for st in c['stubs']:
                if st not in stubs:
                    stubs.append(st)
        unwind = max(c['unwind'] for c in grp)
        attrs = '#[kani::unwind(%d)]' % unwind + ''.join('\n#[kani::stub(%s, %s)]' % (a, b) for a, b in stubs)
        bounded = '; '.join(sorted(set('%s: %s' % (c['id'], c['bounded']) for c in grp if c['bounded']))) or None
        H.append(dict(name='%s%02d_%s' % (prefix, i, grp[0]['builtin'].replace('::', '_')), props=sorted(set(p for c in grp for p in c['props'])), tier=tier,
                      bounded=bounded, body='\n'.join(c['body'] for c in grp), attrs=attrs,
                      doc='builtins through the real dispatch: ' + ', '.join(c['id'] for c in grp),
                      decode=('builtin_cases', [(c['id'], c['call'], c['vars'], c['doc']) for c in grp]), ncases=len(grp)))


import os as _os
_here = _os.path.dirname(_os.path.abspath(__file__))
OK_IDS = set(l.strip() for l in open(_os.path.join(_here, 'builtin_cases_ok.txt')) if l.strip() and not l.startswith('#'))
SLOW = [c for c in CASES if c['id'] not in OK_IDS]        # reported under not_decided (cost), never counted
FAST = [c for c in CASES if c['id'] in OK_IDS]
# The explicit builtin closures are verified by Verus (contracts/97_builtins.vc, unbounded).  The quick tier therefore
# keeps only what Verus cannot reach: the macro-generated arms (routing of simple_math!/int_function!/float_is) and
# one case per explicit builtin that corroborates the name -> closure dispatch.  The thorough tier runs every case.
QUICK_IDS = {'math_ln_f', 'math_sqrt_i', 'floor_i', 'ceil_f', 'math_is_nan_f', 'math_is_finite_f', 'math_pow_tfie', 'math_pow_tife', 'math_atan2_tfie', 'math_log_tife',
             'bitand_tiie', 'bitor_tiie', 'bitxor_tiie', 'bitnot_i', 'shl_tiie', 'shr_tiie',
             'typeof_f', 'math_abs_i', 'min_tiie', 'max_tffe', 'min_tffe', 'math_ln_b',
             # one dispatch case per macro-generated float builtin (name -> member), float shape
             'math_acos_f', 'math_acosh_f', 'math_asin_f', 'math_asinh_f', 'math_atan_f', 'math_atanh_f', 'math_cbrt_f', 'math_cos_f', 'math_cosh_f',
             'math_exp2_f', 'math_exp_f', 'math_log10_f', 'math_log2_f', 'math_sin_f', 'math_sinh_f', 'math_sqrt_f', 'math_tan_f', 'math_tanh_f',
             'round_f', 'floor_f', 'math_hypot_tfie', 'math_is_infinite_f', 'math_is_normal_f', 'math_abs_f'}
for c in FAST:
    c['tier'] = 'quick' if c['id'] in QUICK_IDS else 'thorough'
pack([c for c in FAST if c['tier'] == 'quick'], 'bq', 'quick')
pack([c for c in FAST if c['tier'] != 'quick'], 'bt', 'thorough')
