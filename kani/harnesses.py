"""Kani harness catalogue.

Each harness: name, props, tier ('quick' runs in both tiers, 'thorough' only there), bounded (None for a
complete proof over the full input domain of a loop-free harness, else the stated bound), body (Rust),
decode (how to turn the concrete-playback values into an evalexpr expression for replay).
Numeric leaf harnesses render contracts/numeric_spec.py (the Verus caller side uses the same formulas).
"""
import os
import sys

HERE = os.path.dirname(os.path.abspath(__file__))
sys.path.insert(0, os.path.join(os.path.dirname(HERE), 'contracts'))
import numeric_spec  # noqa: E402

H = []


def add(name, props, body, tier='quick', bounded=None, decode=None, attrs='', doc=''):
    H.append(dict(name=name, props=props, body=body, tier=tier, bounded=bounded, decode=decode, attrs=attrs, doc=doc))


def int2(name, method, props, check, decode, tier='quick', doc=''):
    body = '''    let a: i64 = kani::any(); let b: i64 = kani::any();
    let r = <i64 as EvalexprInt<N>>::%s(&a, &b);
    %s
    core::mem::forget(r);''' % (method, check)
    add(name, props, body, tier=tier, decode=decode, doc=doc)


def int1(name, method, props, check, decode, tier='quick', doc=''):
    body = '''    let a: i64 = kani::any();
    let r = <i64 as EvalexprInt<N>>::%s(&a);
    %s
    core::mem::forget(r);''' % (method, check)
    add(name, props, body, tier=tier, decode=decode, doc=doc)


# ---- checked arithmetic: the contracts assumed on the abstract instance VInt, proved here for i64
for m, sym in (('checked_add', '+'), ('checked_sub', '-'), ('checked_mul', '*')):
    int2('int_' + m, m, ['C03', 'C01'], numeric_spec.INT[m]['kani'], ('binop', sym), doc=numeric_spec.INT[m]['doc'])
int1('int_checked_neg', 'checked_neg', ['C03', 'C01'], numeric_spec.INT['checked_neg']['kani'], ('unop', '-'), doc=numeric_spec.INT['checked_neg']['doc'])
int2('int_checked_div', 'checked_div', ['C03', 'C01'], numeric_spec.INT['checked_div']['kani'], ('binop', '/'), doc='Ok/Err partition and error payload of the quotient (b == 0 and MIN / -1 are DivisionErrors)')
int2('int_checked_div_value', 'checked_div', ['C03'], numeric_spec.INT['checked_div']['kani_value'], ('binop', '/'), tier='thorough',
     doc='Ok value of checked_div is the truncating quotient (|a| = |q|*|b| + rem, rem < |b|, sign rule); 150-350 s')
int2('int_checked_rem', 'checked_rem', ['C03', 'C01'], numeric_spec.INT['checked_rem']['kani'], ('binop', '%'),
     doc='Ok/Err partition and error payload of the remainder (b == 0 and MIN % -1 are ModulationErrors)')

# ---- C10 integer builtins' leaves
int1('int_abs', 'abs', ['C10', 'C01'], '''match &r { Ok(v) => { assert!(a != i64::MIN); assert!(*v as i128 == (a as i128).abs()); },
               Err(e) => { assert!(a == i64::MIN);
                           assert!(matches!(e, EvalexprError::NegationError { .. } | EvalexprError::AdditionError { .. } | EvalexprError::SubtractionError { .. } | EvalexprError::MultiplicationError { .. })); } }''',
     ('call1', 'math::abs'), doc='exact |a|; abs(MIN) is an arithmetic error, never a panic or a wrapped value')
int2('int_bitand', 'bitand', ['C10', 'C01'], 'assert!(r == (a & b));', ('call2', 'bitand'))
int2('int_bitor', 'bitor', ['C10', 'C01'], 'assert!(r == (a | b));', ('call2', 'bitor'))
int2('int_bitxor', 'bitxor', ['C10', 'C01'], 'assert!(r == (a ^ b));', ('call2', 'bitxor'))
int1('int_bitnot', 'bitnot', ['C10', 'C01'], 'assert!(r == !a);', ('call1', 'bitnot'))
int2('int_shl', 'bit_shift_left', ['C10', 'C01'],
     '''if 0 <= b && b <= 63 { assert!(r == (((a as i128) << (b as u32)) as i64)); }''', ('call2', 'shl'),
     doc='never panics for any amount; for 0..=63 the result is a * 2^b wrapped to 64 bits')
int2('int_shr', 'bit_shift_right', ['C10', 'C01'],
     '''if 0 <= b && b <= 63 { assert!(r == (((a as i128) >> (b as u32)) as i64)); }''', ('call2', 'shr'),
     doc='never panics for any amount; for 0..=63 the result is floor(a / 2^b)')
add('int_from_usize', ['C10', 'C01'], '''    let u: usize = kani::any();
    let r = <i64 as EvalexprInt<N>>::from_usize(u);
    match &r { Ok(v) => assert!(*v >= 0 && *v as u128 == u as u128), Err(e) => { assert!(u as u128 > i64::MAX as u128); assert!(matches!(e, EvalexprError::IntFromUsize { usize_int } if *usize_int == u)); } }
    core::mem::forget(r);''', doc='usize -> i64 exact or IntFromUsize')
add('int_into_usize', ['C10', 'C01'], '''    let a: i64 = kani::any();
    let r = <i64 as EvalexprInt<N>>::into_usize(&a);
    match &r { Ok(u) => assert!(a >= 0 && *u as i128 == a as i128), Err(e) => { assert!(a < 0 || a as i128 > usize::MAX as i128); assert!(matches!(e, EvalexprError::IntIntoUsize { int } if *int == a)); } }
    core::mem::forget(r);''', doc='i64 -> usize exact or IntIntoUsize')
add('num_casts', ['C01'], '''    let a: i64 = kani::any(); let f: f64 = kani::any();
    let x = <N as EvalexprNumericTypes>::int_as_float(&a);
    let y = <N as EvalexprNumericTypes>::float_as_int(&f);
    assert!(x == a as f64); assert!(y == f as i64);''', doc='int<->float conversions never panic and are the `as` casts')
add('float_plain_members', ['C10', 'C01'], '''    let x: f64 = kani::any(); let y: f64 = kani::any();
    assert!(<f64 as EvalexprFloat<N>>::is_nan(&x) == x.is_nan());
    assert!(<f64 as EvalexprFloat<N>>::is_finite(&x) == x.is_finite());
    assert!(<f64 as EvalexprFloat<N>>::is_infinite(&x) == x.is_infinite());
    assert!(<f64 as EvalexprFloat<N>>::is_normal(&x) == x.is_normal());
    assert!(<f64 as EvalexprFloat<N>>::abs(&x).to_bits() == x.abs().to_bits());
    assert!(<f64 as EvalexprFloat<N>>::min(&x, &y).to_bits() == x.min(y).to_bits());
    assert!(<f64 as EvalexprFloat<N>>::max(&x, &y).to_bits() == x.max(y).to_bits());
    assert!(<f64 as EvalexprFloat<N>>::MIN == f64::NEG_INFINITY && <f64 as EvalexprFloat<N>>::MAX == f64::INFINITY);''',
    doc='the non-libm members of `impl EvalexprFloat for f64` are the corresponding std operations, bit for bit')

# ---- every libm-backed and rounding member of `impl EvalexprFloat for f64` (the leaves under the macro-generated
# ---- float builtins): floor / round / ceil with CBMC's IEEE semantics, the libm members through distinct tagged
# ---- stubs (routing and argument order; the library values themselves are trusted)
_UNARY = ['ln', 'log2', 'log10', 'exp', 'exp2', 'cos', 'acos', 'cosh', 'acosh', 'sin', 'asin', 'sinh', 'asinh', 'tan', 'atan', 'tanh', 'atanh', 'sqrt', 'cbrt']
_BINARY = [('log', 'log'), ('pow', 'powf'), ('atan2', 'atan2'), ('hypot', 'hypot')]
add('float_rounding_members', ['C10', 'C01'], '''    let x: f64 = kani::any();
    assert!(<f64 as EvalexprFloat<N>>::floor(&x).to_bits() == x.floor().to_bits());
    assert!(<f64 as EvalexprFloat<N>>::round(&x).to_bits() == x.round().to_bits());
    assert!(<f64 as EvalexprFloat<N>>::ceil(&x).to_bits() == x.ceil().to_bits());''',
    decode=('float_member',), doc='floor / round / ceil of `impl EvalexprFloat for f64` are the std operations, bit for bit, for every double')
_MEMBERS = [(f, 'stub_' + f, 'f64::' + f, 1) for f in _UNARY] + [(m, 'stub2_' + st, 'f64::' + st, 2) for m, st in _BINARY]
for _g in range(0, len(_MEMBERS), 6):
    _grp = _MEMBERS[_g:_g + 6]
    add('float_libm_members_%d' % (_g // 6), ['C10', 'C01'], '    let x: f64 = kani::any(); let y: f64 = kani::any();\n'
        + '\n'.join(('    assert!(<f64 as EvalexprFloat<N>>::%s(&x).to_bits() == %s(x).to_bits());' if ar == 1 else
                     '    assert!(<f64 as EvalexprFloat<N>>::%s(&x, &y).to_bits() == %s(x, y).to_bits());') % (m, st) for m, st, std, ar in _grp),
        attrs='\n'.join('#[kani::stub(%s, %s)]' % (std, st) for m, st, std, ar in _grp), decode=('float_member',),
        doc='libm-backed members %s of `impl EvalexprFloat for f64` call their own library function with the operands in order (library functions replaced by distinct tagged stubs)' % ', '.join(m for m, st, std, ar in _grp))

# ---- C06: the hexadecimal literal parser of the default integer type (assumed as hex_int_spec on the abstract instance).
# ---- Bounded stand-in: every string of one or two ASCII bytes (all 2^16 byte pairs that are valid UTF-8 of length <= 2).
add('int_from_hex_str_len2', ['C06'], '''    let b0: u8 = kani::any(); let b1: u8 = kani::any(); let two: bool = kani::any();
    kani::assume(b0 < 128 && b1 < 128);
    let bytes = [b0, b1];
    let s = if two { core::str::from_utf8(&bytes[..]).unwrap() } else { core::str::from_utf8(&bytes[..1]).unwrap() };
    fn dig(b: u8) -> Option<i64> { match b { b'0'..=b'9' => Some((b - b'0') as i64), b'a'..=b'f' => Some((b - b'a') as i64 + 10), b'A'..=b'F' => Some((b - b'A') as i64 + 10), _ => None } }
    let r = <i64 as EvalexprInt<N>>::from_hex_str(s);
    if two {
        match (dig(b0), dig(b1)) {
            (Some(x), Some(y)) => assert!(r == Ok(16 * x + y)),
            (None, Some(y)) => { if b0 == b'+' { assert!(r == Ok(y)); } else if b0 == b'-' { assert!(r == Ok(-y)); } else { assert!(r.is_err()); } },
            _ => assert!(r.is_err()),
        }
    } else {
        match dig(b0) { Some(x) => assert!(r == Ok(x)), None => assert!(r.is_err()) }
    }''', bounded='strings of at most 2 ASCII bytes', attrs='#[kani::unwind(4)]', decode=('hexlit',),
    doc='from_hex_str parses radix 16 (digits 0-9a-fA-F, optional sign as i64::from_str_radix accepts it) for every ASCII string of length 1 or 2')
