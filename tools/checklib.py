"""Shared machinery of bin/check: scratch handling, Verus run, ledger, classification, evidence."""
import atexit
import glob
import hashlib
import json
import os
import re
import shutil
import subprocess
import sys
import time

HERE = os.path.dirname(os.path.abspath(__file__))
ROOT = os.path.dirname(HERE)
sys.path.insert(0, HERE)
from rustscan import Lost, code_mask, find_code, match_close  # noqa: E402
import build_unit  # noqa: E402

REPO = os.environ.get('VERIF_REPO', '/repo')
ALL_PROPS = ['C%02d' % i for i in range(1, 17)]


class Undecided(Exception):
    pass


def scratch_dir():
    base = os.environ.get('VERIF_SCRATCH_BASE', '/var/tmp')
    d = os.path.join(base, 'evx-verif-%d' % os.getpid())
    shutil.rmtree(d, ignore_errors=True)
    os.makedirs(d)
    if not os.environ.get('VERIF_KEEP_SCRATCH'):
        atexit.register(lambda: shutil.rmtree(d, ignore_errors=True))
    return d


# ------------------------------------------------------------------ unit structure

def enclosing_mods(s, m, pos, mods):
    path = [name for (name, a, b) in mods if a < pos < b]
    return '::'.join(path)


def module_spans(s, m):
    out = []
    for mm in find_code(s, m, r'^[ \t]*(?:pub(?:\([a-z]+\))? )?mod ([a-z_0-9]+) \{'):
        bo = s.index('{', mm.end() - 1)
        bc = match_close(s, m, bo)
        out.append((mm.group(1), bo, bc))
    return out


FN_RX = r'^[ \t]*(?:pub(?:\([a-z]+\))? )?(?:open |closed |uninterp )?(?:const )?(?:spec |proof |broadcast proof |exec )?fn ([A-Za-z_0-9]+)(?:/\*PROPS:([^*]*)\*/)?'


def fn_table(s, keep_external=False):
    """sorted list of (line_no, module_path, fn_name, has_contract, is_exec) for every fn header in the unit"""
    m = code_mask(s)
    mods = module_spans(s, m)
    line_starts = [0]
    for i, c in enumerate(s):
        if c == '\n':
            line_starts.append(i + 1)
    import bisect
    out = []
    for mm in find_code(s, m, FN_RX):
        pos = mm.start()
        line = bisect.bisect_right(line_starts, pos)
        head = s[mm.start():mm.end()]
        props = None if mm.group(2) is None else [p for p in mm.group(2).split(',') if p]
        # declarations without a body (trait methods) and external_body fns generate no obligation
        k = mm.end()
        depth = 0
        while k < len(s):
            if m[k]:
                ch = s[k]
                if ch in '([':
                    depth += 1
                elif ch in ')]':
                    depth -= 1
                elif depth == 0 and ch in '{;':
                    break
            k += 1
        mk = s.find('/*BODY*/', mm.end(), mm.end() + 6000)
        nh = re.compile(FN_RX, re.M).search(s, mm.end())
        if mk >= 0 and (nh is None or mk < nh.start()):
            k = mk + len('/*BODY*/')
        pre = s[max(0, s.rfind('\n', 0, max(0, s.rfind('\n', 0, pos) - 1)) - 200):pos]
        ext = 'external_body' in pre.split('}')[-1] or 'verifier::external]' in pre.split('}')[-1]
        if (k >= len(s) or s[k] == ';' or ext) and not (keep_external and ext and props is not None):
            props = None if props is None else props
            out.append((line, enclosing_mods(s, m, pos, mods), mm.group(1), None if True else props, False))
            continue
        out.append((line, enclosing_mods(s, m, pos, mods), mm.group(1), props, not re.search(r'\b(spec|proof)\b', head)))
    return out


def locate(fntab, line):
    """(module, fn) of the fn whose header is the nearest at or before `line`"""
    best = None
    for ln, mod, name, _, _ in fntab:
        if ln <= line:
            best = (mod, name)
        else:
            break
    return best


# ------------------------------------------------------------------ Verus

def run_verus(unit_path, rlimit=None, extra=None, timeout=1800):
    cmd = ['verus', os.path.basename(unit_path), '--crate-type=lib', '--output-json', '--time',
           '--multiple-errors', '50', '--error-format=json']
    if rlimit:
        cmd += ['--rlimit', str(rlimit)]
    if extra:
        cmd += extra
    t0 = time.time()
    p = subprocess.run(cmd, cwd=os.path.dirname(unit_path), capture_output=True, text=True, timeout=timeout)
    wall = time.time() - t0
    try:
        out = json.loads(p.stdout)
    except Exception:
        out = None
    diags = []
    for line in p.stderr.split('\n'):
        line = line.strip()
        if not line.startswith('{'):
            continue
        try:
            d = json.loads(line)
        except Exception:
            continue
        if d.get('$message_type') == 'diagnostic':
            diags.append(d)
    return {'cmd': ' '.join(cmd), 'json': out, 'diags': diags, 'wall': wall, 'rc': p.returncode, 'stderr': p.stderr}


def ledger_from(vjson, crate):
    """{(module, fn): [ {success, time_ms, rlimit, mode, full} ]}"""
    led = {}
    if not vjson:
        return led
    smt = vjson.get('times-ms', {}).get('smt', {})
    for mod in smt.get('smt-run-module-times', []):
        for f in mod.get('function-breakdown', []):
            full = f['function']
            parts = full.split('::')
            if parts[0] == crate:
                parts = parts[1:]
            name = parts[-1]
            module = mod['module']
            led.setdefault((module, name), []).append({
                'full': '::'.join(parts), 'success': bool(f.get('success')), 'time_ms': f.get('time'),
                'rlimit': f.get('rlimit'), 'mode': f.get('mode:') or f.get('mode')})
    return led


SAFETY_PAT = re.compile(r'overflow|underflow|division by zero|index out of|unreachable|unwrap|out of bounds|arithmetic|shift', re.I)


def classify_diag(d, fntab):
    """-> dict(kind, fn=(module,name), line, clause, text) or None for non-verification diagnostics"""
    if d.get('level') != 'error':
        return None
    msg = d.get('message', '')
    spans = d.get('spans', [])
    if msg.startswith('aborting due to'):
        return None
    prim = [sp for sp in spans if sp.get('is_primary')]
    body = [sp for sp in spans if (sp.get('label') or '').startswith(('at the end of the function body', 'at this exit', 'at this loop exit'))]
    clause_span = prim[0] if prim else (spans[0] if spans else None)
    loc_span = body[0] if body else clause_span
    if loc_span is None:
        return {'kind': 'tool', 'msg': msg, 'fn': None, 'line': None, 'clause': '', 'labels': []}
    fn = locate(fntab, loc_span['line_start'])
    clause = ' '.join(t['text'].strip() for t in clause_span.get('text', []))[:400]
    labels = [(sp.get('label') or '') for sp in spans]
    low = msg.lower()
    if 'rlimit' in low or 'resource limit' in low or 'timed out' in low or 'timeout' in low:
        kind = 'rlimit'
    elif 'postcondition not satisfied' in low:
        kind = 'post'
    elif 'precondition not satisfied' in low:
        # failed requires of a callee: std-level safety (unwrap/index/unreachable) or a crate contract
        kind = 'pre'
    elif 'invariant not satisfied' in low:
        kind = 'invariant'
    elif 'assertion failed' in low or 'assert' in low and 'failed' in low:
        kind = 'assert'
    elif 'decreases' in low or 'termination' in low:
        kind = 'decreases'
    elif SAFETY_PAT.search(low):
        kind = 'safety'
    else:
        kind = 'tool'
    return {'kind': kind, 'msg': msg, 'fn': fn, 'line': loc_span['line_start'], 'clause': clause, 'labels': labels,
            'clause_line': clause_span['line_start'], 'clause_file': clause_span.get('file_name')}


def trusted_scan(unit_text):
    """every assumption left in the generated unit (DESIGN 3.3): name list"""
    out = []
    m = code_mask(unit_text)
    for mm in find_code(unit_text, m, r'assume_specification\s*(?:<[^\[]*>)?\s*\[\s*([^\]]+?)\s*\]'):
        out.append('assume_specification ' + re.sub(r'\s+', ' ', mm.group(1)))
    for mm in find_code(unit_text, m, r'#\[verifier::external_body\]\s*(?://[^\n]*\n\s*)?(?:pub )?(?:broadcast )?(?:proof )?(?:const |fn |struct )\s*([A-Za-z_0-9:]+)'):
        out.append('external_body ' + mm.group(1))
    for mm in find_code(unit_text, m, r'\b(admit|assume)\s*\('):
        out.append(mm.group(1) + '() call at offset %d' % mm.start())
    for mm in find_code(unit_text, m, r'uninterp spec fn ([A-Za-z_0-9]+)'):
        out.append('uninterpreted ' + mm.group(1))
    for mm in find_code(unit_text, m, r'#\[verifier::external_type_specification\]'):
        out.append('external_type_specification')
    for mm in find_code(unit_text, m, r'#\[verifier::external_trait_specification\]\s*pub trait (\w+)'):
        out.append('external_trait_specification ' + mm.group(1))
    return sorted(set(out))


def sha_tree(paths):
    h = hashlib.sha256()
    for p in sorted(paths):
        h.update(p.encode())
        h.update(open(p, 'rb').read())
    return h.hexdigest()[:16]
