"""Mechanical extraction of the real evalexpr sources into one Verus-ingestible file.

Steps (DESIGN.md 3.1/3.2): flatten `mod x;` -> instantiate the numeric type parameter with
the abstract instance VNum/VInt/VFloat -> stated normalisations X1..X8.  Every rule that is
expected to apply but does not raises Lost (=> UNDECIDED / exit 2).
The rewrite counts of the run are returned for the evidence file.
"""
import os
import re
import sys

sys.path.insert(0, os.path.dirname(os.path.abspath(__file__)))
from rustscan import Lost, code_mask, match_close, find_code, item_span  # noqa: E402


# ghost vocabulary import, appended at the end of every inlined module (no effect on exec code)
MOD_TAIL = '#[allow(unused_imports)] use vstd::prelude::*;\n#[allow(unused_imports)] use crate::vs::*;\n'


def flatten(path):
    src = open(path).read()
    d = os.path.dirname(path)
    base = os.path.basename(path)
    cd = d if base in ('lib.rs', 'mod.rs') else os.path.join(d, base[:-3])
    m = code_mask(src)

    out = []
    pos = 0
    rx = re.compile(r'((?:^[ \t]*#\[[^\n]*\]\n)*)^[ \t]*(pub(?:\([a-z]+\))? )?mod ([a-z_0-9]+);', re.M)
    while True:
        mm = rx.search(src, pos)
        if not mm:
            out.append(src[pos:])
            break
        # position of the `mod` keyword must be code (skip commented-out modules)
        kw = mm.start(3) - 4
        if not m[kw]:
            out.append(src[pos:mm.end()])
            pos = mm.end()
            continue
        attrs, vis, name = mm.group(1), mm.group(2) or '', mm.group(3)
        for cand in (os.path.join(cd, name + '.rs'), os.path.join(cd, name, 'mod.rs')):
            if os.path.exists(cand):
                body = flatten(cand)
                out.append(src[pos:mm.start()])
                out.append('%s%smod %s {\n%s\n%s}' % (attrs, vis, name, body, MOD_TAIL))
                break
        else:
            raise Lost('module %s not found from %s' % (name, path))
        pos = mm.end()
    return ''.join(out)


def remove_item(s, header_pat, what):
    m = code_mask(s)
    st, ls, bo, bc = item_span(s, m, header_pat)
    return s[:st] + '// [extract] removed: %s\n' % what + s[bc + 1:]


def strip_test_mods(s):
    n = 0
    while True:
        m = code_mask(s)
        ms = list(find_code(s, m, r'^[ \t]*#\[cfg\(test\)\]\s*mod tests \{'))
        if not ms:
            return s, n
        mm = ms[0]
        bo = s.index('{', mm.start())
        bc = match_close(s, m, bo)
        s = s[:mm.start()] + '// [extract] X2 removed: #[cfg(test)] mod tests\n' + s[bc + 1:]
        n += 1


# X4: the instantiation rules; (pattern, replacement, minimum expected matches)
INST_RULES = [
    (r'<NumericTypes: EvalexprNumericTypes = DefaultNumericTypes>', '', 5),
    (r'<NumericTypes = DefaultNumericTypes>', '', 1),
    (r'<T, NumericTypes = DefaultNumericTypes>', '<T>', 1),
    (r'pub trait (EvalexprInt|EvalexprFloat)<NumericTypes: EvalexprNumericTypes<(?:Int|Float) = Self>>:', r'pub trait \1:', 2),
    (r'type (Int|Float): (EvalexprInt|EvalexprFloat)<Self>', r'type \1: \2', 2),
    (r"<'a, NumericTypes: EvalexprNumericTypes>", "<'a>", 1),
    (r", NumericTypes: EvalexprNumericTypes>", ">", 1),
    (r'<NumericTypes: EvalexprNumericTypes>', '', 10),
    (r'impl<NumericTypes> ', 'impl ', 1),
    (r'pub struct (EmptyContext|EmptyContextWithBuiltinFunctions)<NumericTypes>\(PhantomData<NumericTypes>\);',
     r'pub struct \1(PhantomData<()>);', 2),
    (r'struct NodeVisitor\(PhantomData<NumericTypes>\);', 'struct NodeVisitor(PhantomData<()>);', 0),
    (r'<(?:NumericTypes|C::NumericTypes|Self::NumericTypes|DefaultNumericTypes) as EvalexprNumericTypes>::Int', 'crate::VInt', 1),
    (r'<(?:NumericTypes|C::NumericTypes|Self::NumericTypes|DefaultNumericTypes) as EvalexprNumericTypes>::Float', 'crate::VFloat', 1),
    (r'<(?:NumericTypes|C::NumericTypes) as EvalexprNumericTypes>::', 'crate::VNum::', 1),
    (r'\bNumericTypes::Int\b', 'crate::VInt', 1),
    (r'\bNumericTypes::Float\b', 'crate::VFloat', 1),
    (r'\bNumericTypes::int_as_float', 'crate::VNum::int_as_float', 1),
    (r'<C: Context<NumericTypes = NumericTypes>>', '<C: Context>', 1),
    (r'Context<NumericTypes = NumericTypes>', 'Context', 1),
    (r'^\s*/// The numeric types used for evaluation\.\n\s*type NumericTypes: EvalexprNumericTypes;\n', '', 1),
    (r'^\s*type NumericTypes = NumericTypes;\n', '', 3),
    (r'::<(?:NumericTypes|DefaultNumericTypes)>', '', 1),
    (r'<(?:NumericTypes|C::NumericTypes|Self::NumericTypes|DefaultNumericTypes)>', '', 10),
    (r', (?:NumericTypes|C::NumericTypes|Self::NumericTypes|DefaultNumericTypes)>', '>', 5),
    (r'\b(EvalexprResult(?:Value)?<(?:[^<>]|<[^<>]*>)*), _>', r'\1>', 0),
    (r"<'a, NumericTypes>", "<'a>", 0),
    (r'default_numeric_types::DefaultNumericTypes, ', '', 0),
    (r'\{default_numeric_types::DefaultNumericTypes\}', '{}', 0),
    (r'value::numeric_types::default_numeric_types::DefaultNumericTypes,', '', 0),
    (r'numeric_types::default_numeric_types::DefaultNumericTypes,', '', 0),
]


def rename_int(s):
    """X5: identifier `int` -> `int_v` in code positions only"""
    m = code_mask(s)
    out = []
    pos = 0
    n = 0
    for mm in re.finditer(r'(?<![A-Za-z0-9_])int(?![A-Za-z0-9_])', s):
        if m[mm.start()]:
            out.append(s[pos:mm.start()])
            out.append('int_v')
            pos = mm.end()
            n += 1
    out.append(s[pos:])
    return ''.join(out), n


def gen_impl(s, trait, ty):
    """abstract trait impl generated from the real trait declaration; bodies are external"""
    mm = re.search(r'pub trait ' + trait + r':.*?\n\{(.*?)\n\}\n', s, flags=re.S)
    if not mm:
        raise Lost('trait declaration ' + trait)
    body = mm.group(1)
    body = re.sub(r'^\s*///.*\n', '', body, flags=re.M)
    body = re.sub(r'^\s*#\[expect.*\n', '', body, flags=re.M)
    sigs = []
    for sm in re.finditer(r'fn ([a-z_0-9]+)(\([^;{]*?)\s*;', body, flags=re.S):
        sigs.append((sm.group(1), re.sub(r'\s+', ' ', sm.group(2))))
    consts = re.findall(r'const ([A-Z]+): Self;', body)
    return sigs, consts


def instantiate(flat):
    counts = {}
    s = flat
    # X1
    n1 = s.count('#![forbid(unsafe_code)]') + s.count('#![deny(missing_docs)]')
    if n1 != 2:
        raise Lost('X1 crate attributes')
    s = s.replace('#![forbid(unsafe_code)]', '').replace('#![deny(missing_docs)]', '')
    counts['X1'] = n1
    # X2
    s, n2 = strip_test_mods(s)
    counts['X2'] = n2
    # X3
    s = re.sub(r'/\*#\[cfg\(feature = "num-traits"\)\]\s*pub mod num_traits_numeric_types \{.*?\n\}\*/', '', s, flags=re.S)
    s = remove_item(s, r'^pub mod default_numeric_types \{', 'X3 module default_numeric_types (verified by Kani)')
    counts['X3'] = 1
    # X4
    n4 = 0
    for pat, rep, minimum in INST_RULES:
        s, n = re.subn(pat, rep, s, flags=re.M)
        if n < minimum:
            raise Lost('X4 rule matched %d < %d times: %s' % (n, minimum, pat))
        n4 += n
    counts['X4'] = n4
    if re.search(r'\bNumericTypes\b', re.sub(r'//[^\n]*', '', s).replace('EvalexprNumericTypes', '')):
        left = re.findall(r'[^\n]*\bNumericTypes\b[^\n]*', re.sub(r'//[^\n]*', '', s).replace('EvalexprNumericTypes', ''))
        raise Lost('X4 left a NumericTypes parameter: ' + left[0].strip())
    # X5
    s, n5 = rename_int(s)
    counts['X5'] = n5
    return s, counts


def outline_builtins(s):
    """X17: the closure bodies of the builtin table (`"name" => Some(Function::new(|argument| BODY))`) are copied
    mechanically into named functions `builtin__name(argument: &Value) -> EvalexprResultValue { BODY }` placed after
    `builtin_function`, so that Verus (which rejects the `Function::new(closure)` construction) can verify them.
    The dispatch table itself stays unverified; that each name reaches its closure is corroborated by the Kani
    harnesses, which go through the real dispatch.  Macro-generated arms are not outlined."""
    m = code_mask(s)
    st, ls, bo, bc = item_span(s, m, r'^pub fn builtin_function\(')
    body = s[bo:bc + 1]
    mb = code_mask(body)
    out = []
    names = []
    for mm in re.finditer(r'"([a-z_:0-9]+)" => Some\(Function::new\((?:move )?\|argument\|\s*', body):
        # the string literal itself is masked; make sure the `=>` is code
        if not mb[mm.end(1) + 2]:
            continue
        # arms behind a feature gate (regex, rand) are not part of the default build
        prev = body[body.rfind('\n', 0, body.rfind('\n', 0, mm.start())) + 1:mm.start()]
        if '#[cfg(' in prev:
            continue
        # closure body runs to the `)` that closes `Function::new(`
        k = body.index('Function::new(', mm.start()) + len('Function::new')
        close = match_close(body, mb, k, '(', ')')
        text = body[mm.end():close].rstrip()
        name = mm.group(1)
        fname = 'builtin__' + name.replace('::', '_')
        if not text.startswith('{'):
            text = '{\n            ' + text + '\n        }'
        out.append('// [extract] X17 closure body of builtin "%s"\npub fn %s(argument: &Value) -> crate::error::EvalexprResultValue %s\n' % (name, fname, text))
        names.append(name)
    if len(names) < 10:
        raise Lost('X17 found only %d builtin closures' % len(names))
    return s[:bc + 1] + '\n\n' + '\n'.join(out) + s[bc + 1:], names


def outline_filters(s):
    """X19: the identifier iterators of `Node` are `SOURCE.filter_map(|p| BODY)` with SOURCE one of `self.iter()`
    (NodeIter, under contract) and `self.iter_operators_mut()`.  Verus rejects iterator adapters and closures, so each
    closure body is copied mechanically into an associated function `NAME__filter(p: &T) -> Option<R> { BODY }` placed
    right after the iterator function, with T = Node for `self.iter()` and T = Operator for `self.iter_operators_mut()`
    and R the iterator's item type.  For the `_mut` variants the copy takes `&Operator` and returns `Option<&String>`:
    mutability is dropped (the body text is unchanged and type-checks for both).  What stays unverified: the
    `filter_map` adapter itself (std) and, for the `_mut` variants, the traversal `OperatorIterMut`.
    A function named iter_*identifiers* that does not have this shape is left alone (its contract section is then
    lost and C14 is UNDECIDED)."""
    names = []
    pos = 0
    while True:
        m = code_mask(s)
        mm = None
        for cand in re.finditer(r'pub fn (iter_\w*identifiers\w*)\(&(mut )?self\) -> impl Iterator<Item = (&str|&mut String)> \{', s[pos:]):
            if m[pos + cand.start()]:
                mm = cand
                break
        if not mm:
            break
        name = mm.group(1)
        bo = pos + mm.end() - 1
        bc = match_close(s, m, bo)
        body = s[bo + 1:bc]
        mb = code_mask(body)
        pos = bc + 1
        fm = None
        for cand in re.finditer(r'\.filter_map\(\|(\w+)\|\s*', body):
            if mb[cand.start()]:
                fm = cand
                break
        if not fm:
            continue
        source = re.sub(r'\s+', '', body[:fm.start()])
        k = body.index('(', fm.start())
        close = match_close(body, mb, k, '(', ')')
        if body[close + 1:].strip() != '':
            continue
        text = body[fm.end():close].rstrip()
        if source == 'self.iter()':
            pty = '&Node'
        elif source == 'self.iter_operators_mut()':
            pty = '&Operator'
        else:
            continue
        rty = {'&str': '&str', '&mut String': '&String'}[mm.group(3)]
        if not text.startswith('{'):
            text = '{\n            ' + text + '\n        }'
        gen = '\n\n    // [extract] X19 filter closure of %s (source iterator: %s)\n    pub fn %s__filter(%s: %s) -> Option<%s> %s\n' % (name, source, name, fm.group(1), pty, rty, text)
        s = s[:bc + 1] + gen + s[bc + 1:]
        pos = bc + 1 + len(gen)
        names.append(name)
    return s, names


ERASE_RULES = [
    # (regex, replacement, minimum matches) applied to the copied text of OperatorIterMut only
    (r'\bOperatorIterMut\b', 'OperatorIterErased', 4),
    (r'\bIterMut<', 'Iter<', 1),
    (r'\.iter_mut\(\)', '.iter()', 2),
    (r"&'a mut ", "&'a ", 2),
    (r'&mut result\.operator', '&result.operator', 1),
]


def erase_operator_iter_mut(s):
    """X20: `OperatorIterMut` (the traversal behind every `iter_*_mut`) hands out `&'a mut Operator` from
    `slice::IterMut`, which Verus cannot express.  Its three items (struct, `new`, `impl Iterator`) are copied
    mechanically with mutability of the *borrowed tree* erased -- `IterMut<` -> `Iter<`, `.iter_mut()` -> `.iter()`,
    `&'a mut ` -> `&'a `, `&mut result.operator` -> `&result.operator` -- under the name `OperatorIterErased`, placed
    after the original.  Everything else (the loop, the stack discipline, `&mut self`, `last_mut`, `pop`, `push`) is
    unchanged text, so the copy visits the same nodes in the same order; that mutable and shared borrows do not
    differ in control flow, and that the mutable borrows are sound, is left to rustc.  The original stays unverified."""
    m = code_mask(s)
    pieces = []
    end = None
    for pat in (r"^pub struct OperatorIterMut<'a> \{", r"^impl<'a> OperatorIterMut<'a> \{", r"^impl<'a> Iterator for OperatorIterMut<'a> \{"):
        try:
            st, ls, bo, bc = item_span(s, m, pat)
        except Lost:
            return s, 0
        pieces.append(s[st:bc + 1])
        end = max(end or 0, bc + 1)
    text = '\n\n'.join(pieces)
    total = 0
    for rx, rep, minimum in ERASE_RULES:
        text, n = re.subn(rx, rep, text)
        if n < minimum:
            return s, 0
        total += n
    if re.search(r'\bmut\b', re.sub(r'&mut self|let mut result|last_mut|//[^\n]*|///[^\n]*', '', text)):
        # some other mutable access to the tree appeared: the erased copy would not be faithful
        return s, 0
    gen = '\n\n// [extract] X20 mutability-erased copy of OperatorIterMut (see tools/extract.py)\n' + text + '\n'
    return s[:end] + gen + s[end:], total


def outline_iter_variables(s):
    """X21: `HashMapContext::iter_variables` is `self.variables.iter().map(|(string, value)| BODY)`; the closure body is
    copied into a free function `hashmap_iter_variables__map(string: &String, value: &Value) -> (String, Value) { BODY }`
    placed after the impl block (the `map` adapter and the hash-map iterator stay unverified).  Any other shape: no
    copy (the contract section is lost, C04's listing conjunct is then UNDECIDED)."""
    m = code_mask(s)
    try:
        st, ls, bo, bc = item_span(s, m, r'^impl IterateVariablesContext for HashMapContext \{')
    except Lost:
        return s, 0
    body = s[bo:bc + 1]
    mb = code_mask(body)
    mm = re.search(r'fn iter_variables\(&self\) -> Self::VariableIterator<\'_> \{\s*self\s*\.variables\s*\.iter\(\)\s*\.map\(\|\((\w+), (\w+)\)\|\s*', body)
    if not mm or not mb[mm.start()]:
        return s, 0
    k = body.rindex('(', 0, mm.end() - 1)
    k = body.index('.map(', mm.start()) + 4
    close = match_close(body, mb, k, '(', ')')
    rest = body[close + 1:]
    if not re.match(r'^\s*\}', rest):
        return s, 0
    text = body[mm.end():close].rstrip()
    if not text.startswith('{'):
        text = '{\n    ' + text + '\n}'
    gen = '\n\n// [extract] X21 map closure of HashMapContext::iter_variables\npub fn hashmap_iter_variables__map(%s: &String, %s: &Value) -> (String, Value) %s\n' % (mm.group(1), mm.group(2), text)
    return s[:bc + 1] + gen + s[bc + 1:], 1


def split_args(text, mask):
    """top-level comma split of a macro argument list (code mask aware)"""
    out, depth, cur = [], 0, 0
    for i, ch in enumerate(text):
        if not mask[i]:
            continue
        if ch in '([{':
            depth += 1
        elif ch in ')]}':
            depth -= 1
        elif ch == ',' and depth == 0:
            out.append(text[cur:i])
            cur = i + 1
    out.append(text[cur:])
    return [a.strip() for a in out if a.strip()]


def copy_display_impls(s):
    """X22: every `impl [fmt::]Display for T { fn fmt(&self, f) -> .. { BODY } }` of the crate is copied into a free
    function `display_fmt__T(this: &T, f: &mut Formatter) -> Result<(), Error> { BODY' }` placed after the impl, so
    that Verus can check the body for panics (indexing, slicing, unwrap, arithmetic).  BODY' is BODY with
      `self` -> `this` (not `self::` paths),
      `write!(f, FMT, a, b..)` -> `({ let _ = &(a); let _ = &(b); crate::vs::fmt_write(f) })`   (arguments still evaluated),
      `format!(FMT, a..)`      -> `({ let _ = &(a); ..; crate::vs::fmt_format() })`,
      `X.fmt(f)`               -> `crate::vs::fmt_nested(&X, f)`.
    Assumed (preamble): the formatting machinery itself (`Formatter::write_fmt`, Display/Debug of std types and derived
    Debug) does not panic; a nested Display call does not panic -- for crate types that is the obligation of their own
    copy.  Termination of recursive formatting is not proved.  The original impls stay unverified."""
    names = []
    pos = 0
    while True:
        m = code_mask(s)
        mm = None
        for cand in re.finditer(r'^impl (?:fmt::)?Display for (\w+) \{', s[pos:], flags=re.M):
            if m[pos + cand.start()]:
                mm = cand
                break
        if not mm:
            break
        ty = mm.group(1)
        ibo = pos + mm.end() - 1
        ibc = match_close(s, m, ibo)
        pos = ibc + 1
        try:
            st, ls, bo, bc = fn_span_local(s, m, 'fmt', ibo, ibc)
        except Lost:
            continue
        body = s[bo:bc + 1]
        # macros first (inner to outer is not needed: no nesting of write!/format! inside each other's arguments here)
        for mac, tail in (('write', 'crate::vs::fmt_write(f)'), ('format', 'crate::vs::fmt_format()')):
            while True:
                mb = code_mask(body)
                hit = None
                for cand in re.finditer(r'\b%s!\(' % mac, body):
                    if mb[cand.start()]:
                        hit = cand
                        break
                if not hit:
                    break
                k = hit.end() - 1
                close = match_close(body, mb, k, '(', ')')
                inner = body[k + 1:close]
                args = split_args(inner, mb[k + 1:close])
                skip = 2 if mac == 'write' else 1          # `f` and the format string / the format string
                exprs = []
                for a in args[skip:]:
                    na = re.match(r'^(\w+)\s*=\s*(?!=)(.*)$', a, flags=re.S)
                    exprs.append(na.group(2) if na else a)
                rep = '({ ' + ''.join('let _ = &(%s); ' % e for e in exprs) + tail + ' })'
                body = body[:hit.start()] + rep + body[close + 1:]
        body = re.sub(r'(?<![A-Za-z0-9_])((?:\*?[A-Za-z_][A-Za-z0-9_]*)(?:\.[A-Za-z_][A-Za-z0-9_]*)*)\.fmt\(f\)', lambda q: 'crate::vs::fmt_nested(&%s, f)' % q.group(1).lstrip('*'), body)
        body = re.sub(r'(?<![A-Za-z0-9_:])self(?![A-Za-z0-9_])(?!::)', 'this', body)
        gen = ('\n\n// [extract] X22 copy of `impl Display for %s` (macros replaced by opaque calls, see tools/extract.py)\n'
               'pub fn display_fmt__%s(this: &%s, f: &mut core::fmt::Formatter<\'_>) -> Result<(), core::fmt::Error> %s\n' % (ty, ty, ty, body))
        s = s[:ibc + 1] + gen + s[ibc + 1:]
        pos = ibc + 1 + len(gen)
        names.append(ty)
    return s, names


def fn_span_local(s, m, name, lo, hi):
    from rustscan import fn_span
    return fn_span(s, m, name, lo, hi)


def extract(repo):
    flat = flatten(os.path.join(repo, 'src', 'lib.rs'))
    s, counts = instantiate(flat)
    s, names = outline_builtins(s)
    counts['X17'] = len(names)
    s, fnames = outline_filters(s)
    counts['X19'] = len(fnames)
    s, n20 = erase_operator_iter_mut(s)
    counts['X20'] = n20
    s, n21 = outline_iter_variables(s)
    counts['X21'] = n21
    # X23: compound bit assignment on a place expression (Verus rejects `|` / `&` on bool); both operands are
    # still evaluated exactly once (the place is read, the right side is evaluated, the helper combines them)
    s, n23 = re.subn(r'^([ \t]*)((?:self\.)?[A-Za-z_][A-Za-z0-9_]*(?:\.[A-Za-z_][A-Za-z0-9_]*)*) (\||&)= ([^;\n]+);[ \t]*$',
                     lambda q: '%s%s = crate::vs::%s(%s, %s);' % (q.group(1), q.group(2), 'vs_or' if q.group(3) == '|' else 'vs_and', q.group(2), q.group(4)), s, flags=re.M)
    counts['X23'] = n23
    # X24: reference patterns (`Some(&x)`) are outside Verus; `if let Some(&x) = E {` binds a copy of the referent, which is
    # what `if let Some(x__r) = E { let x = *x__r;` does (the pattern only compiles for Copy referents)
    s, n24 = re.subn(r'\b(if|while) let Some\(&([a-z_][A-Za-z0-9_]*)\) = ([^{};]+?) \{', r'\1 let Some(\2__r) = \3 { let \2 = *\2__r;', s)
    counts['X24'] = n24
    s, dn = copy_display_impls(s)
    counts['X22'] = len(dn)
    return s, counts


if __name__ == '__main__':
    s, c = extract(sys.argv[1])
    open(sys.argv[2], 'w').write(s)
    print(c)
