"""evidence/<id>.json writer (schema: /root/.vp/EVIDENCE.schema.json)."""
import json
import os

import props as P

ROOT = os.path.dirname(os.path.dirname(os.path.abspath(__file__)))


def write(prop, tier, seed, out, wall):
    obl = out['obligation_list']
    samples = []
    for o in obl[:12]:
        samples.append({'obligation': o['name'], 'backend': o['backend'], 'solver_ms': o.get('time_ms'), 'rlimit': o.get('rlimit'), 'discharged': o['ok']})
    for f in out['fails'][:5]:
        samples.append({'refuted': f['obligation'], 'message': f.get('message'), 'clause': f.get('clause')})
    doc = {
        'property_id': prop, 'tier': tier if tier in ('quick', 'thorough') else 'quick', 'seed': seed, 'level': 'proof',
        'coverage': {
            'obligations': out['obligations'], 'discharged': out['discharged'],
            'checker_cmd': ' ; '.join(out['cmds']),
            'trusted_base': out['trusted'],
            'samples': samples,
            'functions_under_contract': [o['name'] for o in obl],
            'per_obligation': [{'name': o['name'], 'backend': o['backend'], 'solver_ms': o.get('time_ms'), 'rlimit': o.get('rlimit'), 'ok': o['ok']} for o in obl],
            'solver_time_ms': sum((o.get('time_ms') or 0) for o in obl),
            'canary': out['canary'],
            'extraction_rewrites': out['rewrites'], 'injected_rewrites': [list(x) for x in out['injected_rewrites']],
            'bounded_parts': out['bounded'],
            'not_decided': P.NOT_DECIDED.get(prop, []) + out.get('not_decided_dyn', []),
            'exhaustive': False,
        },
        'assumptions': out['trusted'],
        'wall_s': round(wall, 2),
        'violations': len(out['violations']),
    }
    os.makedirs(os.path.join(ROOT, 'evidence'), exist_ok=True)
    json.dump(doc, open(os.path.join(ROOT, 'evidence', prop + '.json'), 'w'), indent=1)
