"""evidence/<id>.json writer (schema: /root/.vp/EVIDENCE.schema.json)."""
import json
import os

import props as P

ROOT = os.path.dirname(os.path.dirname(os.path.abspath(__file__)))


def write(prop, tier, seed, out, wall):
    obl = out['obligation_list']
    samples = []
    # the obligations with the most solver work first: they carry the property-level contracts
    for o in sorted(obl, key=lambda x: -(x.get('time_ms') or 0))[:14]:
        samples.append({'obligation': o['name'], 'backend': o['backend'], 'solver_ms': o.get('time_ms'), 'rlimit': o.get('rlimit'), 'discharged': o['ok'],
                        'contract': o.get('contract') or o.get('doc')})
    for f in out['fails'][:5]:
        samples.append({'refuted': f['obligation'], 'message': f.get('message'), 'clause': f.get('clause')})
    doc = {
        'property_id': prop, 'tier': tier if tier in ('quick', 'thorough') else 'quick', 'seed': seed, 'level': 'proof',
        'coverage': {
            'obligations': out['obligations'], 'discharged': out['discharged'],
            'checker_cmd': ' ; '.join(out['cmds']),
            'trusted_base': out['trusted'],
            'samples': samples,
            'functions_under_contract': [o['name'] for o in obl],
            'per_obligation': [{'name': o['name'], 'backend': o['backend'], 'solver_ms': o.get('time_ms'), 'rlimit': o.get('rlimit'), 'ok': o['ok'], 'bounded': o.get('bounded')} for o in obl],
            'proved_unbounded': len([o for o in obl if o['ok'] and not o.get('bounded')]), 'bounded_only': len([o for o in obl if o.get('bounded')]),
            'solver_time_ms': sum((o.get('time_ms') or 0) for o in obl),
            'canary': out['canary'],
            'extraction_rewrites': out['rewrites'], 'injected_rewrites': [list(x) for x in out['injected_rewrites']],
            'bounded_parts': out['bounded'],
            'not_decided': P.NOT_DECIDED.get(prop, []) + out.get('not_decided_dyn', []),
            'exhaustive': False,
        },
        'assumptions': out['trusted'],
        'wall_s': round(wall, 2),
        'violations': len(out['violations']),
    }
    # self-tests on scratch trees (tools/selftest.py) redirect their evidence so that evidence/ always describes /repo
    edir = os.environ.get('VERIF_EVIDENCE_DIR') or os.path.join(ROOT, 'evidence')
    os.makedirs(edir, exist_ok=True)
    json.dump(doc, open(os.path.join(edir, prop + '.json'), 'w'), indent=1)
