"""Engines: Verus (unbounded, SMT) and Kani (bit-precise leaves / bounded stand-ins)."""
import json
import os
import re
import sys
import time

HERE = os.path.dirname(os.path.abspath(__file__))
ROOT = os.path.dirname(HERE)
import checklib as cl
from checklib import Lost, Undecided
import build_unit
import props as P

BASELINE = os.path.join(ROOT, 'baseline', 'obligations.json')


def load_baseline():
    if os.path.exists(BASELINE):
        return json.load(open(BASELINE))
    return {}


def props_of(fntab, key):
    out = set()
    contracted = False
    for ln, mod, name, props, is_exec in fntab:
        if (mod, name) == key and props is not None:
            contracted = True
            out.update(props)
    return out, contracted


SKIP_CACHE = {}


def verus_engine(prop, tier, scratch):
    # A function that left the verifiable subset on this tree (unsupported construct, proof text that no longer
    # type-checks) is isolated: its contract is kept as an assumption for its callers, every property tagged on it
    # becomes UNDECIDED, the other properties are still decided.
    skip = set(SKIP_CACHE.get(cl.REPO, ()))
    isolated = {}
    for attempt in range(6):
        text, info = build_unit.build(cl.REPO, skip=frozenset(skip))
        unit = os.path.join(scratch, 'evx_unit.rs')
        open(unit, 'w').write(text)
        fntab = cl.fn_table(text, keep_external=True)
        rlimit = 60 if tier == 'thorough' else 30
        r = cl.run_verus(unit, rlimit=rlimit)
        vj = r['json']
        if vj is None:
            raise Undecided('verus produced no JSON (rc=%s): %s' % (r['rc'], r['stderr'][-400:].replace('\n', ' ')))
        vr = vj.get('verification-results', {})
        cls = [cl.classify_diag(d, fntab) for d in r['diags']]
        cls = [c for c in cls if c]
        if not (vr.get('encountered-vir-error') or (vr.get('verified', 0) + vr.get('errors', 0) == 0)):
            break
        msgs = '; '.join(c['msg'] for c in cls[:3]) or r['stderr'][-300:].replace('\n', ' ')
        offenders = set()
        for c in cls:
            if c['fn'] and not c['fn'][0].startswith('vs'):
                nm = (info.get('copies') or {}).get(c['fn'][1], c['fn'][1])     # an error inside a body copy belongs to its method
                offenders.add(nm)
                isolated[nm] = c['msg'][:200]
        contracted = {name for (ln, mod, name, props, ex) in fntab if props is not None}
        new = (offenders & contracted) - skip
        if not new:
            # already isolated and still rejected (a rustc-level error inside the body): drop the body as well
            new = set('!' + n for n in (offenders & contracted) if ('!' + n) not in skip)
        if not new:
            raise Undecided('unit rejected before verification (unsupported construct / compile error): %s' % msgs[:500])
        skip |= new
    else:
        raise Undecided('unit still rejected after isolating %s' % sorted(skip))
    SKIP_CACHE[cl.REPO] = set(skip)
    if skip:
        affected = set()
        for (ln, mod, name, props, ex) in fntab:
            if name in skip and props:
                affected.update(props)
        if prop in affected or prop == 'C01':
            ue = Undecided('function(s) %s left the verifiable subset on this tree (%s)' % (sorted(n for n in skip if not n.startswith('!')), '; '.join('%s: %s' % kv for kv in sorted(isolated.items()))[:400]))
            ue.probe_names = set(n for n in skip if not n.startswith('!'))
            ue.probe_skip = set()
            raise ue
            raise Undecided('function(s) %s left the verifiable subset on this tree (%s)' % (sorted(n for n in skip if not n.startswith('!')), '; '.join('%s: %s' % kv for kv in sorted(isolated.items()))[:400]))
    lost = info.get('lost_fns') or {}
    if lost:
        affected = set()
        for name, d in lost.items():
            affected.update(d.get('props') or [])
        if prop in affected or prop == 'C01':
            ue = Undecided('contract anchor lost on this tree: %s' % '; '.join('%s (%s)' % (n, d['reason']) for n, d in sorted(lost.items()))[:500])
            ue.probe_names = set(n for n, d in lost.items() if not d.get('missing') and not n.startswith('<'))
            ue.probe_skip = set(skip)
            raise ue
    fntab = cl.fn_table(text)
    led = cl.ledger_from(vj, 'evx_unit')
    # ---- obligations of this property: every contracted fn tagged with it (C01: every verified exec fn)
    obligations = []
    expected = {}
    for ln, mod, name, props, is_exec in fntab:
        if props is None:
            continue
        if prop in props or (prop == 'C01' and is_exec):
            expected[(mod, name)] = expected.get((mod, name), 0) + 1
    if prop == 'C01':
        # panic-freedom is an obligation of every exec fn Verus verifies, contracted or not
        for key, entries in led.items():
            if key not in expected and any(e['mode'] == 'exec' for e in entries) and not key[0].startswith('vs'):
                expected[key] = len([e for e in entries if e['mode'] == 'exec'])
    failures = []
    undecided = []
    for c in cls:
        if c['kind'] in ('rlimit', 'tool'):
            undecided.append(c)
            continue
        key = c['fn']
        fprops, contracted = props_of(fntab, key) if key else (set(), False)
        std_clause = c.get('clause_file') is not None and not c['clause_file'].endswith('evx_unit.rs')
        if c['kind'] in ('safety', 'decreases') or (c['kind'] == 'pre' and std_clause):
            attributed = {'C01'}
        elif c['kind'] == 'pre':
            attributed = set(fprops) | {'C01'}
        else:
            attributed = set(fprops) or {'C01'}
            # clause-level attribution: `// @props C03,C13` on the line of the failed clause narrows the function's tags
            cm = re.search(r'//\s*@props\s+([C0-9, ]+)', c.get('clause') or '')
            if cm and c['kind'] in ('post', 'invariant', 'assert'):
                attributed = set(x.strip() for x in cm.group(1).split(',') if x.strip())
        if key and key[0].startswith('vs') and not fprops:
            # a spec-level lemma failed: machinery, not code
            undecided.append(c)
            continue
        if key and key[1] in set(info.get('lost_hints', [])):
            # the function lost a statement-anchored proof hint on this tree: an unproved obligation is undecided
            c = dict(c, kind='tool', msg='proof hint anchor lost in %s; then: %s' % (key[1], c['msg']))
            undecided.append(c)
            continue
        if prop in attributed:
            failures.append(c)
    # contract text of each function under contract (for the evidence samples)
    lines_ = text.split('\n')
    ctext = {}
    for ln, mod, name, props, is_exec in fntab:
        if props is None:
            continue
        seg = []
        for l in lines_[ln - 1:ln + 60]:
            if '/*BODY*/' in l:
                break
            seg.append(l.strip())
        joined = ' '.join(seg)
        k = joined.find('requires') if 'requires' in joined and joined.find('requires') < (joined.find('ensures') if 'ensures' in joined else 10**9) else joined.find('ensures')
        if k >= 0:
            ctext.setdefault((mod, name), re.sub(r'\s+', ' ', joined[k:])[:500])
    for key, n in sorted(expected.items()):
        entries = led.get(key, [])
        okc = len([e for e in entries if e['success']])
        bad = [e for e in entries if not e['success']]
        name = 'verus:%s::%s' % key
        fails_here = [c for c in failures if c['fn'] == key]
        obligations.append({'name': name, 'expected': n, 'verified': okc, 'failed': len(bad),
                            'time_ms': sum((e['time_ms'] or 0) for e in entries), 'rlimit': sum((e['rlimit'] or 0) for e in entries),
                            'backend': 'z3 via verus', 'ok': okc >= n and not bad and not fails_here, 'contract': ctext.get(key, '(panic-freedom / termination obligations of the body)')})
    for c in undecided:
        # an undecided diagnostic inside one of this property's fns blocks a verdict
        if c['fn'] in expected or c['fn'] is None:
            raise Undecided('%s in %s: %s' % (c['kind'], c['fn'], c['msg'][:200]))
    return {'unit': unit, 'text': text, 'info': info, 'fntab': fntab, 'run': r, 'ledger': led, 'obligations': obligations,
            'failures': failures, 'trusted': cl.trusted_scan(text) + ['AUTO-ISOLATED (contract assumed, outside the verifiable subset on this tree): ' + n for n in sorted(skip) if not n.startswith('!')]
            + ['ANCHOR LOST (contract %s): %s' % ('dropped' if d.get('missing') else 'assumed', n) for n, d in sorted(lost.items())], 'cmd': r['cmd']}


def canary(prop, scratch, names):
    """vacuity guard: with `assert(false)` at the head of each contracted body, each must FAIL"""
    text, info = build_unit.build(cl.REPO, canary=True, skip=frozenset(SKIP_CACHE.get(cl.REPO, ())))
    unit = os.path.join(scratch, 'evx_canary.rs')
    open(unit, 'w').write(text)
    r = cl.run_verus(unit, rlimit=10)
    if r['json'] is None:
        raise Undecided('canary run produced no JSON')
    fntab = cl.fn_table(text)
    led = cl.ledger_from(r['json'], 'evx_canary')
    lines = text.split('\n')
    # fns that received a canary: the marker follows the header before the next fn header
    canaried = {}
    for idx, (ln, mod, name, props, is_exec) in enumerate(fntab):
        nxt = fntab[idx + 1][0] if idx + 1 < len(fntab) else len(lines)
        if any('// CANARY' in l for l in lines[ln - 1:nxt - 1]):
            if props is not None and (prop in props or prop == 'C01'):
                canaried[(mod, name)] = canaried.get((mod, name), 0) + 1
    vacuous = []
    for key, n in canaried.items():
        entries = led.get(key, [])
        nfail = len([e for e in entries if not e['success']])
        if nfail < n:
            vacuous.append('%s::%s' % key)
    return {'cmd': r['cmd'], 'canaries': sum(canaried.values()), 'failed_as_required': sum(canaried.values()) - len(vacuous),
            'vacuous': vacuous, 'wall': r['wall']}


def panic_probe(prop, scratch, names, skip, seed):
    """C01 only.  A function whose proof text could not be attached on this tree (lost anchor, left the subset) is verified
    once more with its contract only.  A failed panic-freedom obligation in it (index, slice, unwrap, overflow,
    unreachable) is then looked up in the replay pools: if an input makes the working tree panic where the committed
    tree does not, the obligation is reported as violated with that input -- a replayed panic is conclusive for C01.
    Without such an input the property stays UNDECIDED on this tree."""
    import witness
    try:
        text, info = build_unit.build(cl.REPO, skip=frozenset(skip) - set(names) - set('!' + n for n in names), bare=frozenset(names))
    except Lost:
        return []
    unit = os.path.join(scratch, 'evx_probe.rs')
    open(unit, 'w').write(text)
    fntab = cl.fn_table(text, keep_external=True)
    r = cl.run_verus(unit, rlimit=20)
    if r['json'] is None or r['json'].get('verification-results', {}).get('encountered-vir-error'):
        return []
    out = []
    seen = set()
    for d in r['diags']:
        c = cl.classify_diag(d, fntab)
        if not c or not c['fn'] or c['fn'][1] not in names:
            continue
        # any failed precondition of a callee (std or assumed-std specification) or arithmetic / unreachable obligation;
        # what decides is the replayed panic below
        if c['kind'] not in ('safety', 'pre'):
            continue
        f = {'obligation': 'verus:%s::%s#%s' % (c['fn'][0], c['fn'][1], c['kind']), 'engine': 'verus', 'kind': c['kind'],
             'message': c['msg'] + ' (contract-only probe of a function whose proof text was lost on this tree)', 'clause': c['clause'], 'line': c['line'], 'labels': c['labels']}
        if f['obligation'] in seen:
            continue
        seen.add(f['obligation'])
        w = witness.search(prop, f, scratch, seed, panic_only=True)
        if w:
            f['witness'] = w
            f['verifier_output'] = r['stderr'][-4000:]
            out.append(f)
    return out


def run_property(prop, tier, seed, scratch, update_baseline=False):
    import kani_engine
    import findings
    import replay as rp
    t0 = time.time()
    try:
        v = verus_engine(prop, tier, scratch)
    except Undecided as ue:
        names = getattr(ue, 'probe_names', None)
        if prop != 'C01' or not names or update_baseline:
            raise
        pf = panic_probe(prop, scratch, names, getattr(ue, 'probe_skip', set()), seed)
        if not pf:
            raise
        kf = findings.load()
        violations, known_lines = [], []
        for f in pf:
            hit = findings.match(kf, prop, f, f['witness'])
            if hit:
                known_lines.append('KNOWN-FINDING: property=%s %s' % (prop, hit))
                continue
            path = rp.write_replay(prop, f, f['witness'], f.get('verifier_output', ''))
            violations.append({'replay': path, 'has_input': True, 'obligation': f['obligation']})
        obl = [{'name': f['obligation'].split('#')[0], 'expected': 1, 'ok': False, 'time_ms': 0, 'rlimit': None, 'backend': 'z3 via verus',
                'contract': '(panic-freedom obligations of the body, contract-only probe)'} for f in pf]
        return {'obligations': len(obl), 'discharged': 0, 'obligation_list': obl, 'violations': violations, 'known_lines': known_lines,
                'trusted': ['contract-only probe: ' + str(ue)], 'cmds': ['verus evx_probe.rs --crate-type=lib (contract-only probe)'],
                'canary': {'canaries': 0, 'failed_as_required': 0, 'vacuous': []}, 'rewrites': {}, 'injected_rewrites': [], 'bounded': [], 'fails': pf,
                'verus_wall': 0, 'kani_wall': 0, 'not_decided_dyn': ['everything except the probed function(s): ' + str(ue)[:300]]}
    names = [tuple(o['name'][6:].rsplit('::', 1)) for o in v['obligations']]
    can = canary(prop, scratch, names)
    if can['vacuous']:
        raise Undecided('vacuity: canary verified in %s' % can['vacuous'])
    try:
        k = kani_engine.run(prop, tier, seed, scratch)
    except Undecided as ke:
        # a Kani time-out or build problem must not hide an obligation Verus has already refuted
        if not v['failures'] or update_baseline:
            raise
        k = {'obligations': [], 'failures': [], 'trusted': [], 'cmds': [], 'bounded': [], 'wall': 0, 'skipped': True,
             'not_decided': ['Kani part not decided on this run: %s' % str(ke)[:300]]}
    obligations = v['obligations'] + k['obligations']
    # ---- baseline comparison
    base = load_baseline()
    cur = {o['name']: o.get('expected', 1) for o in obligations}
    if update_baseline:
        base[prop] = cur
        if v['info'].get('params'):
            json.dump(v['info']['params'], open(os.path.join(os.path.dirname(BASELINE), 'params.json'), 'w'), indent=0, sort_keys=True)
        json.dump(base, open(BASELINE, 'w'), indent=1, sort_keys=True)
    else:
        want = base.get(prop)
        if want is None:
            raise Undecided('no baseline ledger for %s' % prop)
        missing = [n for n in want if n not in cur and not (k.get('skipped') and n.startswith('kani:'))]
        if missing:
            raise Undecided('baseline obligation(s) missing from ledger: %s' % ', '.join(missing[:5]))
    if not obligations:
        raise Undecided('empty ledger')
    # ---- violations
    violations = []
    known_lines = []
    kf = findings.load()
    fails = []
    for c in v['failures']:
        fails.append({'obligation': 'verus:%s::%s#%s' % (c['fn'][0], c['fn'][1], c['kind']), 'engine': 'verus', 'kind': c['kind'],
                      'message': c['msg'], 'clause': c['clause'], 'line': c['line'], 'labels': c['labels']})
    for f in k['failures']:
        fails.append(f)
    # obligations that are simply not verified without a diagnostic (should not happen)
    for o in obligations:
        if not o['ok'] and not any(f['obligation'].startswith(o['name']) for f in fails):
            raise Undecided('ledger mismatch for %s: expected %s verified %s failed %s without diagnostic' % (o['name'], o.get('expected'), o.get('verified'), o.get('failed')))
    seen = set()
    for f in fails:
        if f['obligation'] in seen and f['engine'] == 'verus' and f.get('clause') in seen:
            continue
        seen.add(f['obligation'])
        seen.add(f.get('clause'))
        w = rp.witness_for(prop, f, scratch, seed)
        hit = findings.match(kf, prop, f, w)
        if hit:
            known_lines.append('KNOWN-FINDING: property=%s %s' % (prop, hit))
            continue
        path = rp.write_replay(prop, f, w, v['run']['stderr'] if f['engine'] == 'verus' else f.get('output', ''))
        violations.append({'replay': path, 'has_input': bool(w and w.get('input')), 'obligation': f['obligation']})
    discharged = len([o for o in obligations if o['ok']])
    return {'obligations': len(obligations), 'discharged': discharged, 'obligation_list': obligations, 'violations': violations,
            'known_lines': known_lines, 'trusted': v['trusted'] + k.get('trusted', []), 'cmds': [v['cmd'], can['cmd']] + k.get('cmds', []),
            'canary': {kk: can[kk] for kk in ('canaries', 'failed_as_required', 'vacuous')}, 'rewrites': v['info']['counts'],
            'injected_rewrites': v['info']['rewrites'], 'bounded': k.get('bounded', []), 'fails': fails,
            'verus_wall': v['run']['wall'], 'kani_wall': k.get('wall', 0), 'not_decided_dyn': k.get('not_decided', [])}
