"""Assemble the Verus unit from /repo's working tree: extract -> inject -> preamble."""
import glob
import os
import re
import sys

HERE = os.path.dirname(os.path.abspath(__file__))
ROOT = os.path.dirname(HERE)
sys.path.insert(0, HERE)
sys.path.insert(0, os.path.join(ROOT, 'contracts'))
from rustscan import Lost  # noqa: E402
import extract as ex  # noqa: E402
import inject as inj  # noqa: E402
import numeric_spec  # noqa: E402


def gen_abstract_impls(s):
    out = ['::vstd::prelude::verus! {']
    for trait, ty, table in (('EvalexprInt', 'crate::VInt', numeric_spec.INT),
                             ('EvalexprFloat', 'crate::VFloat', numeric_spec.FLOAT)):
        sigs, consts = ex.gen_impl(s, trait, ty)
        out.append('impl crate::value::numeric_types::%s for %s {' % (trait, ty))
        for c in consts:
            if ty.endswith('VInt'):
                out.append('    #[verifier::external_body] const %s: Self = crate::VInt(i64::%s);' % (c, c))
            else:
                out.append('    #[verifier::external_body] const %s: Self = crate::VFloat(f64::%s);' % (c, 'NEG_INFINITY' if c == 'MIN' else 'INFINITY'))
        for name, rest in sigs:
            # rest = "(args) -> Ret" ; name the result r
            mm = re.match(r'^(\(.*\))\s*(?:->\s*(.*))?$', rest.strip())
            if not mm:
                raise Lost('signature of %s::%s' % (trait, name))
            args, ret = mm.group(1), mm.group(2)
            sig = 'fn %s%s' % (name, args)
            if ret:
                sig += ' -> (r: %s)' % ret
            spec = table.get(name, {}).get('verus', '')
            out.append('    #[verifier::external_body]\n    %s\n        %s\n    { unimplemented!() }' % (sig, spec))
        used = set(table) - {n for n, _ in sigs}
        if used:
            raise Lost('numeric contract for unknown method(s) %s of %s' % (sorted(used), trait))
        out.append('}')
    # EvalexprNumericTypes
    mm = re.search(r'pub trait EvalexprNumericTypes:.*?\{(.*?)\n\}\n', s, flags=re.S)
    if not mm:
        raise Lost('trait EvalexprNumericTypes')
    body = re.sub(r'//[^\n]*', '', mm.group(1))
    out.append('impl crate::value::numeric_types::EvalexprNumericTypes for crate::VNum {')
    out.append('    type Int = crate::VInt; type Float = crate::VFloat;')
    for sm in re.finditer(r'fn ([a-z_0-9]+)(\([^;{]*?\))\s*->\s*([^;]*);', body, flags=re.S):
        name, args, ret = sm.group(1), sm.group(2), sm.group(3)
        spec = numeric_spec.NUM.get(name, {}).get('verus', '')
        args = args.replace('Self::Int', 'crate::VInt').replace('Self::Float', 'crate::VFloat')
        ret = ret.replace('Self::Int', 'crate::VInt').replace('Self::Float', 'crate::VFloat')
        out.append('    #[verifier::external_body]\n    fn %s%s -> (r: %s)\n        %s\n    { unimplemented!() }' % (name, args, ret.strip(), spec))
    out.append('}')
    out.append('} // verus!')
    return '\n'.join(out)


def build(repo, vc_files=None, canary=False, skip=frozenset(), bare=frozenset()):
    s, counts = ex.extract(repo)
    if vc_files is None:
        vc_files = sorted(glob.glob(os.path.join(ROOT, 'contracts', '*.vc')))
    impls = gen_abstract_impls(s)
    inj.BARE.clear()
    inj.BARE.update(bare)
    s, info = inj.inject(s, vc_files, skip)
    inj.BARE.clear()
    info['skipped'] = sorted(skip)
    if canary:
        s = add_canaries(s, info)
    pre = open(os.path.join(ROOT, 'contracts', 'preamble.rs')).read()
    root = ('\npub mod vs {\n#![allow(unused_imports)]\nuse vstd::prelude::*;\nuse crate::*;\nuse crate::token::*;\nuse crate::operator::*;\nuse crate::tree::*;\nuse crate::value::*;\nuse crate::value::numeric_types::*;\nuse crate::value::value_type::*;\nuse crate::error::*;\nuse crate::context::*;\nuse crate::function::*;\n'
            + pre + '\n' + impls + '\n::vstd::prelude::verus! {\n' + info['root'] + '\n} // verus!\n}\n')
    anchor = '#![allow(clippy::get_first)]'
    if anchor not in s:
        raise Lost('crate attribute anchor')
    s = s.replace(anchor, anchor + '\n#![feature(allocator_api)]\n#![feature(pattern)]\n#![allow(unused_imports, dead_code, unused_variables, unused_mut, unused_braces, unused_parens, non_snake_case)]\nuse vstd::prelude::*;\npub use crate::vs::*;\n', 1)
    s = s + '\n' + root
    info['counts'] = counts
    return s, info


def add_canaries(s, info):
    """vacuity guard: `assert(false)` at the head of each contracted fn must FAIL"""
    from rustscan import code_mask, find_code, next_code_char
    for name in sorted(info['fns']):
        m = code_mask(s)
        pat = r'^[ \t]*(?:pub(?:\([a-z]+\))? )?(?:const )?fn ' + re.escape(name) + r'\b'
        for mm in reversed(list(find_code(s, m, pat))):
            # only fns inside verus! blocks that carry a contract marker
            mk = s.find('/*BODY*/', mm.end(), mm.end() + 20000)
            nf = re.compile(r'^[ \t]*(?:pub(?:\([a-z]+\))? )?(?:const )?fn ', re.M).search(s, mm.end())
            if mk < 0 or (nf and nf.start() < mk):
                continue
            bo = mk + len('/*BODY*/')
            pre = s[max(0, mm.start() - 200):mm.start()].split('}')[-1]
            if s[bo] == '{' and 'external_body' not in pre:
                s = s[:bo + 1] + '\n assert(false); // CANARY\n' + s[bo + 1:]
    return s


if __name__ == '__main__':
    import argparse
    ap = argparse.ArgumentParser()
    ap.add_argument('repo')
    ap.add_argument('out')
    ap.add_argument('--vc', nargs='*')
    ap.add_argument('--canary', action='store_true')
    a = ap.parse_args()
    try:
        s, info = build(a.repo, a.vc, a.canary)
    except Lost as e:
        print('UNDECIDED reason=extraction: %s' % e)
        sys.exit(2)
    open(a.out, 'w').write(s)
    print(info['counts'], len(info['fns']), 'fns under contract')
