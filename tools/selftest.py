#!/usr/bin/env python3
"""Self-test of the checks (DESIGN 3.8): behaviour-preserving edits must pass (exit 0), seeded property-breaking
changes must not pass (exit 1, or exit 2 where the change leaves the verifiable subset).
usage: tools/selftest.py [harmless|seeded|all] [name-substring]     -- works on scratch copies of /repo's committed tree, never on /repo
"""
import glob
import json
import os
import shutil
import subprocess
import sys
import tempfile

ROOT = os.path.dirname(os.path.dirname(os.path.abspath(__file__)))


def scratch_tree(base_commit='HEAD'):
    d = tempfile.mkdtemp(prefix='evx-selftest-', dir='/var/tmp')
    subprocess.run('git -C /repo archive %s | tar -x -C %s' % (base_commit, d), shell=True, check=True)
    subprocess.run(['git', 'init', '-q'], cwd=d)
    subprocess.run('git add -A && git -c user.email=a@b -c user.name=selftest commit -qm base', shell=True, cwd=d)
    return d


def run(prop, tree):
    env = dict(os.environ, VERIF_REPO=tree, VERIF_EVIDENCE_DIR=os.path.join(ROOT, 'out', 'selftest_evidence'))
    p = subprocess.run([os.path.join(ROOT, 'bin', 'check'), prop], capture_output=True, text=True, env=env, cwd=ROOT)
    last = (p.stdout.strip().split('\n') or [''])[-1]
    return p.returncode, last


def main():
    what = sys.argv[1] if len(sys.argv) > 1 else 'all'
    only = sys.argv[2] if len(sys.argv) > 2 else ''
    bad = 0
    if what in ('harmless', 'all'):
        for f in sorted(glob.glob(os.path.join(ROOT, 'selftest', 'harmless', '*.diff'))):
            if only not in os.path.basename(f):
                continue
            prop = os.path.basename(f).split('_')[1].split('.')[0]
            d = scratch_tree()
            try:
                subprocess.run(['patch', '-p1', '-s', '-i', f], cwd=d, check=True)
                rc, last = run(prop, d)
                # exit 0 is the wanted answer; exit 2 (undecided: the edit left the verified subset or renamed a local the
                # proof text names) is not an alarm but is flagged; exit 1 on a behaviour-preserving edit is a false alarm
                ok = rc == 0
                bad += 1 if rc == 1 else 0
                print('%s harmless %s -> exit %d %s' % ('ok  ' if ok else ('und ' if rc == 2 else 'FAIL'), os.path.basename(f), rc, last[:120]))
            finally:
                shutil.rmtree(d, ignore_errors=True)
    if what in ('seeded', 'all'):
        for dd in sorted(glob.glob(os.path.join(ROOT, 'seeded', '*'))):
            if only not in os.path.basename(dd):
                continue
            meta = json.load(open(os.path.join(dd, 'meta.json')))
            prop = meta['property']
            d = scratch_tree()
            try:
                p = subprocess.run(['patch', '-p1', '-s', '--fuzz=3', '-i', os.path.join(dd, 'patch.diff')], cwd=d, capture_output=True, text=True)
                if p.returncode != 0:
                    print('skip seeded %s: patch does not apply to the current tree (written against an earlier commit)' % os.path.basename(dd))
                    continue
                rc, last = run(prop, d)
                ok = (rc == meta['expect_exit']) if 'expect_exit' in meta else rc in (1, 2)
                bad += 0 if ok else 1
                wit = ''
                if rc == 1 and 'replay=' in last:
                    try:
                        wit = ' witness: %s' % json.load(open(last.split('replay=')[1].split()[0])).get('input')
                    except Exception:
                        pass
                print('%s seeded %s -> exit %d %s%s' % ('ok  ' if ok else 'MISS', os.path.basename(dd), rc, last[:120], wit))
            finally:
                shutil.rmtree(d, ignore_errors=True)
    sys.exit(1 if bad else 0)


if __name__ == '__main__':
    main()
