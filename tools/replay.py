"""Replay files and witness search (DESIGN 3.6)."""
import json
import os
import time

ROOT = os.path.dirname(os.path.dirname(os.path.abspath(__file__)))
OUT = os.path.join(ROOT, 'out', 'replays')


def witness_for(prop, failure, scratch, seed):
    """try to attach a failing input (run against the real crate) to a refuted obligation"""
    if failure.get('witness'):
        return failure['witness']
    try:
        import witness
        if prop == 'C01' and failure.get('kind') in ('safety', 'pre'):
            # a panic of the working tree is conclusive without any reference tree
            w = witness.search(prop, failure, scratch, seed, panic_only=True)
            if w:
                return w
        return witness.search(prop, failure, scratch, seed)
    except ImportError:
        return None


def write_replay(prop, failure, witness, verifier_output):
    os.makedirs(OUT, exist_ok=True)
    n = 0
    while True:
        path = os.path.join(OUT, '%s_%d.json' % (prop, n))
        if not os.path.exists(path):
            break
        n += 1
    doc = {'property': prop, 'obligation': failure['obligation'], 'engine': failure['engine'], 'kind': failure.get('kind'),
           'message': failure.get('message'), 'clause': failure.get('clause'),
           'input': (witness or {}).get('input'), 'observed': (witness or {}).get('observed'), 'expected': (witness or {}).get('expected'),
           'replay_kind': (witness or {}).get('kind'), 'expr': (witness or {}).get('expr'), 'binds': (witness or {}).get('binds'),
           'verifier_output': verifier_output[-6000:] if verifier_output else '', 'written': time.strftime('%Y-%m-%dT%H:%M:%S')}
    if not doc['input']:
        doc['note'] = 'no-failing-input-found: the verifier refuted the obligation but gave no model and the witness search found no input'
    json.dump(doc, open(path, 'w'), indent=1)
    return path


def replay_file(path):
    doc = json.load(open(path))
    if not doc.get('input'):
        print('replay: obligation %s has no recorded input (no-failing-input-found); verifier output follows' % doc['obligation'])
        print(doc.get('verifier_output', '')[-2000:])
        return 0
    import witness
    return witness.rerun(doc)
