"""Contract injection: splice requires/ensures/invariants/ghost code from contracts/*.vc into
the extracted text and wrap the items under contract in verus!{}.

Contract file format (line oriented; everything up to the next `@@` line is the payload):

  @@ item <regex> [#n]                 wrap the n-th item whose header matches in verus!{}
  @@ split <regex> [#n] : f1 f2 ...    move these fns of the impl block into their own impl
                                       block (same header) wrapped in verus!{}  (rewrite X9)
  @@ fn <name> [props=C01,C03]         select a fn of the current item
  @@@ attr                             attribute lines placed before the fn
  @@@ spec                             requires/ensures/decreases between signature and body
  @@@ head                             ghost text right after the body's opening brace
  @@@ loop <k>                         invariant/decreases for the k-th loop of the fn (1-based)
  @@@ loopbody <k> / loopend <k> / afterloop <k>   ghost text at the start of / at the end of the body of / right after the k-th loop
  @@@ before <anchor>                  ghost text before the statement starting with <anchor>
  @@@ after <anchor>                   ghost text after the statement/line containing <anchor>
  @@@ itemhead                         text right after the item's opening brace (spec members)
  @@ module                            verus! text placed after the current item (same module)
  @@ root                              verus! text placed in `mod vs` at the crate root
  @@ rewrite <count> <regex> => <replacement>   stated normalisation inside the current item

Any anchor that does not resolve raises Lost (UNDECIDED, exit 2).
"""
import os
import re
import sys

sys.path.insert(0, os.path.dirname(os.path.abspath(__file__)))
from rustscan import BODY_MARK, Lost, code_mask, item_span, fn_span, loops, find_code, match_close  # noqa: E402

OPEN = '::vstd::prelude::verus!{\n'
CLOSE = '\n} // verus!\n'


LOST_HINTS = set()


class Section:
    def __init__(self, kind, arg, lineno, src):
        self.kind, self.arg, self.lineno, self.src = kind, arg, lineno, src
        self.body = []
        self.subs = []

    def text(self):
        return '\n'.join(self.body).rstrip() + '\n'


def parse_vc(path):
    """-> list of top sections (item/split/module/root); fn sections nest under item/split"""
    tops = []
    cur_top = None
    cur_fn = None
    cur = None
    for lineno, line in enumerate(open(path).read().split('\n'), 1):
        if line.startswith('@@@ '):
            parts = line[4:].split(None, 1)
            cur = Section(parts[0], parts[1].strip() if len(parts) > 1 else '', lineno, path)
            if parts[0] in ('itemhead', 'itemattr'):
                if cur_top is None:
                    raise SystemExit('%s:%d itemhead outside item' % (path, lineno))
                cur_top.subs.append(cur)
            else:
                if cur_fn is None:
                    raise SystemExit('%s:%d %s outside fn' % (path, lineno, parts[0]))
                cur_fn.subs.append(cur)
        elif line.startswith('@@ '):
            parts = line[3:].split(None, 1)
            kind = parts[0]
            arg = parts[1].strip() if len(parts) > 1 else ''
            sec = Section(kind, arg, lineno, path)
            if kind in ('item', 'split', 'module', 'root', 'in', 'line'):
                tops.append(sec)
                if kind in ('item', 'split', 'in'):
                    cur_top = sec
                    cur_fn = None
                elif kind == 'module':
                    sec.owner = cur_top
            elif kind == 'fn':
                if cur_top is None:
                    raise SystemExit('%s:%d fn outside item' % (path, lineno))
                cur_top.subs.append(sec)
                cur_fn = sec
            elif kind == 'rewrite':
                if cur_top is None:
                    raise SystemExit('%s:%d rewrite outside item' % (path, lineno))
                cur_top.subs.append(sec)
            else:
                raise SystemExit('%s:%d unknown directive %s' % (path, lineno, kind))
            cur = sec
        elif line.startswith('##'):
            continue
        else:
            if cur is not None:
                cur.body.append(line)
    return tops


def split_nth(arg):
    mm = re.match(r'^(.*?)\s+#(\d+)$', arg)
    if mm:
        return mm.group(1), int(mm.group(2))
    return arg, 0


def norm_ws(t):
    return re.sub(r'\s+', ' ', t).strip()


def find_anchor(s, m, anchor, bo, bc, where):
    """unique whitespace-insensitive occurrence of anchor text in code of s[bo:bc] -> (start, end)"""
    toks = [re.escape(t) for t in anchor.split()]
    rx = r'\s*'.join(toks)
    ms = list(find_code(s, m, rx, bo, bc, flags=re.S))
    if len(ms) != 1:
        raise Lost('%s: anchor `%s` matched %d times' % (where, anchor, len(ms)))
    return ms[0].start(), ms[0].end()


BARE = set()      # functions injected with their contract only (no proof text, no external_body): the C01 panic probe
COPIES = {}       # name of a body copy (X11) -> the method it was copied from
PARAMS = {}       # fn section key -> parameter names on the tree under check (saved as baseline/params.json)
BASE_PARAMS = {}  # the same on the tree the contracts were written for: a renamed parameter is renamed in the contract text


def _param_names(sig):
    """names of the non-self parameters of a signature text `(a: T, mut b: U, &self, ...)`"""
    out, depth, cur = [], 0, ''
    for ch in sig:
        if ch in '<([{':
            depth += 1
        elif ch in '>)]}':
            depth -= 1
        if ch == ',' and depth == 0:
            out.append(cur)
            cur = ''
        else:
            cur += ch
    out.append(cur)
    names = []
    for part in out:
        part = part.strip()
        if not part or ':' not in part:
            continue
        nm = part.split(':', 1)[0].strip()
        nm = re.sub(r'^(mut|ref)\s+', '', nm)
        if re.match(r'^[A-Za-z_][A-Za-z0-9_]*$', nm) and nm != 'self':
            names.append(nm)
    return names


def apply_fn_sections(s, fnsec, item_lo, item_hi, log, copies, skip=frozenset()):
    from rustscan import next_code_char as next_code_char_
    """apply all sub-sections of one fn; returns new text. Positions recomputed after each edit."""
    name = fnsec.arg.split()[0]
    # parameter names on this tree; a parameter renamed since the contracts were written is renamed in the contract text
    key = '%s:%d' % (os.path.basename(fnsec.src), fnsec.lineno)
    renames = []
    try:
        mP = code_mask(s)
        stP, lsP, boP, bcP = fn_span(s, mP, name, item_lo, item_hi())
        from rustscan import next_code_char as _ncc
        poP = _ncc(s, mP, s.index('fn ' + name, lsP), '(')
        pcP = match_close(s, mP, poP, '(', ')')
        cur_names = _param_names(s[poP + 1:pcP])
        PARAMS[key] = cur_names
        base_names = BASE_PARAMS.get(key)
        if base_names and len(base_names) == len(cur_names):
            renames = [(a, b) for a, b in zip(base_names, cur_names) if a != b]
    except Lost:
        pass
    if renames:
        def _ren(sec):
            t = Section(sec.kind, sec.arg, sec.lineno, sec.src)
            body = '\n'.join(sec.body)
            # simultaneous substitution (two passes through unique placeholders), so that swapped names do not collide
            for i_, (a, b) in enumerate(renames):
                body = re.sub(r'(?<![A-Za-z0-9_])%s(?![A-Za-z0-9_])' % re.escape(a), '\x00P%d\x00' % i_, body)
            for i_, (a, b) in enumerate(renames):
                body = body.replace('\x00P%d\x00' % i_, b)
            t.body = body.split('\n')
            t.subs = sec.subs
            return t
        fnsec = _ren(fnsec)
        fnsec.subs = [_ren(x) for x in fnsec.subs]
        log.append(('%s fn %s' % (key, name), 'params-renamed %s' % renames))
    # process sections in an order that keeps earlier anchors valid: we recompute spans each time
    subs = fnsec.subs
    if name in BARE:
        subs = [x for x in fnsec.subs if x.kind == 'spec']
        skip = frozenset(skip) - {name, '!' + name}
    if name in skip:
        m0 = code_mask(s)
        st0, ls0, bo0, bc0 = fn_span(s, m0, name, item_lo, item_hi())
        if bo0 == bc0:
            # a declaration without body (trait method of the same name): nothing to isolate
            skip = frozenset(skip) - {name}
    if name in skip:
        # the function left the verifiable subset: keep its contract (assumed for callers), drop all proof text
        subs = [x for x in fnsec.subs if x.kind == 'spec']
        ext = Section('attr', '', fnsec.lineno, fnsec.src)
        ext.body = ['#[verifier::external_body] // AUTO-ISOLATED: outside the verifiable subset on this tree']
        subs = subs + [ext]
        if ('!' + name) in skip:
            # second level: even rustc rejects the body in the instantiated unit (a type the instantiation rules do not
            # cover): the body is dropped as well, only the assumed contract stays
            m1 = code_mask(s)
            st1, ls1, bo1, bc1 = fn_span(s, m1, name, item_lo, item_hi())
            if bo1 != bc1:
                s = s[:bo1] + '{ unimplemented!() /* AUTO-ISOLATED: body dropped */ }' + s[bc1 + 1:]
    for sub in subs:
        m = code_mask(s)
        # item may have grown; recompute its end by matching from item_lo's brace
        st, ls, bo, bc = fn_span(s, m, name, item_lo, item_hi())
        where = '%s:%d fn %s' % (os.path.basename(sub.src), sub.lineno, name)
        txt = sub.text()
        if sub.kind == 'attr':
            s = s[:ls] + txt + s[ls:]
        elif sub.kind == 'spec':
            # X10: name the return value `r`; then requires/ensures between signature and `{`
            from rustscan import next_code_char
            po = next_code_char(s, m, s.index('fn ' + name, ls), '(')
            pc = match_close(s, m, po, '(', ')')
            tail = s[pc + 1:bo]
            rm = re.match(r'^\s*->\s*(.+?)\s*$', tail, flags=re.S)
            if rm:
                sig_tail = ' -> (r: %s)' % rm.group(1)
            elif tail.strip() == '':
                sig_tail = ''
            else:
                raise Lost('%s: unexpected signature tail %r' % (where, tail))
            s = s[:pc + 1] + sig_tail + '\n' + txt + BODY_MARK + s[bo:]
        elif sub.kind == 'canon_local':
            # X25: the local bound by the first statement matching <regex> (one group = its name) is alpha-renamed to the
            # canonical name the proof text uses; no-op when it already has that name
            mmc = re.match(r'^(.*?)\s+=>\s+(\w+)$', sub.arg, flags=re.S)
            rxc, canon = mmc.group(1), mmc.group(2)
            hits = list(find_code(s, m, rxc, bo, bc))
            if hits:
                cur = hits[0].group(1)
                if cur != canon:
                    body_txt = s[bo:bc + 1]
                    if re.search(r'(?<![A-Za-z0-9_])%s(?![A-Za-z0-9_])' % re.escape(canon), body_txt):
                        raise Lost('%s: canonical local name %s already in use' % (where, canon))
                    body_txt = re.sub(r'(?<![A-Za-z0-9_.])%s(?![A-Za-z0-9_])' % re.escape(cur), canon, body_txt)
                    s = s[:bo] + body_txt + s[bc + 1:]
                    log.append((where, 'canon_local %s -> %s' % (cur, canon)))
        elif sub.kind == 'head':
            s = s[:bo + 1] + '\n' + txt + s[bo + 1:]
        elif sub.kind == 'loop':
            ls_ = loops(s, m, bo, bc)
            k = int(sub.arg)
            if k < 1 or k > len(ls_):
                raise Lost('%s: loop %d of %d' % (where, k, len(ls_)))
            kw, lb = ls_[k - 1]
            j = lb
            while s[j - 1] in ' \t\n':
                j -= 1
            s = s[:j] + '\n' + txt + s[lb:]
        elif sub.kind in ('loopbody', 'afterloop', 'loopend'):
            ls_ = loops(s, m, bo, bc)
            k = int(sub.arg)
            if k < 1 or k > len(ls_):
                raise Lost('%s: loop %d of %d' % (where, k, len(ls_)))
            kw, lb = ls_[k - 1]
            if sub.kind == 'loopbody':
                s = s[:lb + 1] + '\n' + txt + s[lb + 1:]
            elif sub.kind == 'loopend':
                le = match_close(s, m, lb)
                s = s[:le] + txt + s[le:]
            else:
                le = match_close(s, m, lb)
                s = s[:le + 1] + '\n' + txt + s[le + 1:]
        elif sub.kind == 'copybody' and (name in skip or name in BARE):
            # the method left the subset on this tree: no copy of its body either
            log.append((where, 'copybody-skipped'))
            continue
        elif sub.kind == 'copybody':
            COPIES[sub.arg] = name
            # X11: the body of a trait default method is verified as a free function with the same
            # text (the default itself becomes external_body); payload = spec clauses of the copy
            po = next_code_char_(s, m, s.index('fn ' + name, ls), '(')
            pc = match_close(s, m, po, '(', ')')
            params = s[po + 1:pc]
            params = re.sub(r'^\s*&(?:mut )?self\s*,?', '', params)
            tail = s[pc + 1:bo]
            rm = re.match(r'^\s*->\s*\(r: (.+?)\)\s', tail + ' ', flags=re.S) or re.match(r'^\s*->\s*(.+?)\s*(?:ensures|requires|$)', tail, flags=re.S)
            if not rm:
                raise Lost('%s: copybody needs a return type' % where)
            ret = rm.group(1)
            ret = ret.replace('Self::', '')
            body = s[bo:bc + 1]
            copies.append('pub fn %s(%s) -> (r: %s)\n%s%s\n' % (sub.arg, params, ret, txt, body))
        elif sub.kind in ('must_before', 'must_after'):
            # statement-anchored OBLIGATION (an assertion that belongs to a property): a lost anchor is fatal (exit 2)
            a, b = find_anchor(s, m, sub.arg, bo, bc, where)
            if sub.kind == 'must_before':
                la = s.rfind('\n', 0, a) + 1
                s = s[:la] + txt + s[la:]
            else:
                le = s.find('\n', b)
                s = s[:le + 1] + txt + s[le + 1:]
        elif sub.kind in ('before', 'after'):
            # statement-anchored proof hints: when the statement is gone the hint is dropped and the function is
            # marked hint-less (a failure in it is then UNDECIDED, never a violation; success still counts)
            try:
                a, b = find_anchor(s, m, sub.arg, bo, bc, where)
            except Lost as e:
                LOST_HINTS.add(name)
                log.append((where, 'lost-hint'))
                continue
            if sub.kind == 'before':
                la = s.rfind('\n', 0, a) + 1
                s = s[:la] + txt + s[la:]
            else:
                le = s.find('\n', b)
                s = s[:le + 1] + txt + s[le + 1:]
        else:
            raise SystemExit('%s: unknown fn section %s' % (where, sub.kind))
        log.append((where, sub.kind))
    return s


def inject(s, vc_files, skip=frozenset()):
    """returns (text, info) where info has fn->props map, wrapped fn names, root text"""
    info = {'fns': {}, 'items': [], 'rewrites': [], 'lost_fns': {}}
    PARAMS.clear()
    BASE_PARAMS.clear()
    COPIES.clear()
    try:
        import json as _json
        BASE_PARAMS.update(_json.load(open(os.path.join(os.path.dirname(os.path.dirname(os.path.abspath(__file__))), 'baseline', 'params.json'))))
    except Exception:
        pass
    LOST_HINTS.clear()
    root_txt = []
    log = []
    deferred = []
    dropped = set()

    def fn_props(sub):
        pr = []
        for p_ in sub.arg.split()[1:]:
            if p_.startswith('props='):
                pr = p_[6:].split(',')
        return pr

    def lose_fn(top, name, reason):
        pr = []
        for sub in top.subs:
            if sub.kind == 'fn' and sub.arg.split()[0] == name:
                pr += fn_props(sub)
        info['lost_fns'][name] = {'reason': reason, 'props': pr, 'missing': True}

    def drop_top(top, reason):
        # the item a contract section is written for is gone on this tree: the section is dropped, the properties
        # of its functions are UNDECIDED, everything else is still decided
        dropped.add(id(top))
        for sub in top.subs:
            if sub.kind == 'fn':
                info['lost_fns'][sub.arg.split()[0]] = {'reason': 'item not found: %s' % reason, 'props': fn_props(sub), 'missing': True}
        if not any(sub.kind == 'fn' for sub in top.subs):
            info['lost_fns']['<item %s>' % top.arg] = {'reason': 'item not found: %s' % reason, 'props': [], 'missing': True}

    for path in vc_files:
        tops = parse_vc(path)
        for top in tops:
            if top.kind == 'root':
                root_txt.append('// from %s:%d\n' % (os.path.basename(path), top.lineno) + top.text())
                continue
            if top.kind == 'module':
                deferred.append(top)
                continue
            if top.kind == 'line':
                # a one-line item (const / type alias) wrapped in verus!
                m = code_mask(s)
                ms = list(find_code(s, m, top.arg))
                if len(ms) != 1:
                    raise Lost('line item %s matched %d times' % (top.arg, len(ms)))
                a = s.rfind('\n', 0, ms[0].start()) + 1
                b = s.index(';', ms[0].start()) + 1
                s = s[:a] + OPEN + s[a:b] + CLOSE + s[b:]
                continue
            if False:
                owner = top.owner
                if owner is None:
                    raise SystemExit('%s:%d module without item' % (path, top.lineno))
                m = code_mask(s)
                mk = '/*VS:%s:%d*/' % (os.path.basename(owner.src), owner.lineno)
                k = s.find(mk)
                if k < 0:
                    raise Lost('module marker for %s' % mk)
                k = s.find('\n', k) + 1
                s = s[:k] + OPEN + top.text() + CLOSE + s[k:]
                continue
            # item / split
            if top.kind in ('item', 'in'):
                pat, nth = split_nth(top.arg)
                fn_names = None
            else:
                head, names = top.arg.rsplit(':', 1)
                pat, nth = split_nth(head.strip())
                fn_names = names.split()
            m = code_mask(s)
            if fn_names is not None and not re.search(r'#\d+$', top.arg.rsplit(':', 1)[0].strip()):
                # pick the impl block that contains the named fns
                # (a fn that is gone on this tree is dropped from the list and recorded; its properties are UNDECIDED)
                cand, best = None, []
                for k in range(len(list(find_code(s, m, pat)))):
                    st, ls, bo, bc = item_span(s, m, pat, k)
                    found = []
                    for fnm in fn_names:
                        try:
                            fn_span(s, m, fnm, bo, bc)
                            found.append(fnm)
                        except Lost:
                            pass
                    if len(found) > len(best):
                        cand, best = k, found
                if cand is None:
                    drop_top(top, 'no impl block %s contains any of %s' % (pat, fn_names))
                    continue
                for fnm in fn_names:
                    if fnm not in best:
                        lose_fn(top, fnm, 'function not found in impl block %s' % pat)
                fn_names = best
                nth = cand
            try:
                st, ls, bo, bc = item_span(s, m, pat, nth)
            except Lost as e:
                drop_top(top, str(e))
                continue
            marker = '/*VS:%s:%d*/' % (os.path.basename(top.src), top.lineno)
            if fn_names is not None:
                # X9: split the impl block
                header = s[ls:bo + 1]
                pieces = []
                # cut from the back so indices stay valid
                spans = []
                for fnm in fn_names:
                    fst, fls, fbo, fbc = fn_span(s, m, fnm, bo, bc)
                    spans.append((fst, fbc + 1, fnm))
                spans.sort()
                body_new = s[bo + 1:bc]
                # remove spans from the original impl
                orig = s[:bo + 1]
                pos = bo + 1
                for a, b, fnm in spans:
                    orig += s[pos:a] + '// [extract] X9 fn %s moved to verus! impl block\n' % fnm
                    pieces.append(s[a:b])
                    pos = b
                orig += s[pos:bc + 1]
                newblock = '\n' + OPEN + header + '\n' + '\n\n'.join(pieces) + '\n}' + CLOSE + marker + '\n'
                s = orig + newblock + s[bc + 1:]
                # locate the new block
                nb_start = len(orig) + 1 + len(OPEN)
                item_lo = nb_start
                info['rewrites'].append(('X9', pat, len(spans)))
            elif top.kind == 'in':
                # re-open an item that an earlier section already wrapped
                s = s[:bc + 1] + marker + s[bc + 1:]
                item_lo = ls
            else:
                s = s[:st] + OPEN + s[st:bc + 1] + CLOSE + marker + '\n' + s[bc + 1:]
                item_lo = st + len(OPEN)

            def item_hi(item_lo=item_lo):
                mm_ = code_mask(s)
                b = s.index('{', item_lo)
                while not mm_[b]:
                    b = s.index('{', b + 1)
                return match_close(s, mm_, b) + 1
            info['items'].append((os.path.basename(path), top.arg))
            copies = []
            for sub in top.subs:
                if sub.kind == 'fn':
                    parts = sub.arg.split()
                    name = parts[0]
                    props = []
                    for p in parts[1:]:
                        if p.startswith('props='):
                            props = p[6:].split(',')
                    info['fns'].setdefault(name, set()).update(props)
                    # tag the fn header with its properties (read back by checklib.fn_table)
                    m3 = code_mask(s)
                    try:
                        fst, fls, fbo, fbc = fn_span(s, m3, name, item_lo, item_hi())
                    except Lost as e:
                        # the function is gone on this tree: its contract is dropped, its properties are UNDECIDED
                        info['lost_fns'][name] = {'reason': 'function not found: %s' % e, 'props': props, 'missing': True}
                        continue
                    k = s.index('fn ' + name, fls) + 3 + len(name)
                    s = s[:k] + '/*PROPS:%s*/' % ','.join(props) + s[k:]
                    try:
                        s = apply_fn_sections(s, sub, item_lo, item_hi, log, copies, skip)
                    except Lost as e:
                        # a loop / statement anchor of this function is gone: keep the contract as an assumption for
                        # callers (external_body), drop the proof text; the function's properties are UNDECIDED
                        info['lost_fns'][name] = {'reason': str(e), 'props': props, 'missing': False}
                        copies = []
                        s = apply_fn_sections(s, sub, item_lo, item_hi, log, copies, frozenset(skip) | {name})
                    if copies:
                        sec = Section('module', '', top.lineno, top.src)
                        sec.owner = top
                        sec.body = ['\n'.join(copies)]
                        deferred.append(sec)
                        copies = []
                elif sub.kind == 'itemhead':
                    m2 = code_mask(s)
                    b = s.index('{', item_lo)
                    while not m2[b]:
                        b = s.index('{', b + 1)
                    s = s[:b + 1] + '\n' + sub.text() + s[b + 1:]
                elif sub.kind == 'itemattr':
                    m2 = code_mask(s)
                    b = s.index('{', item_lo)
                    while not m2[b]:
                        b = s.index('{', b + 1)
                    # header line start = last line start before b that begins the item keyword
                    hl = s.rfind('\n', 0, b) + 1
                    # walk up while previous lines belong to a multi-line header (no attr/doc/blank)
                    while True:
                        pl = s.rfind('\n', 0, hl - 1) + 1
                        prev = s[pl:hl - 1]
                        if hl <= item_lo or re.match(r'\s*(#\[|///|//|$)', prev) or prev.strip().endswith(('}', ';', '{')):
                            break
                        hl = pl
                    s = s[:hl] + sub.text() + s[hl:]
                elif sub.kind == 'rewrite':
                    mm = re.match(r'^(\d+)\s+(.*?)\s+=>\s+(.*)$', sub.arg, flags=re.S)
                    cnt, rx, rep = int(mm.group(1)), mm.group(2), mm.group(3)
                    lo, hi = item_lo, item_hi()
                    seg, n = re.subn(rx, rep, s[lo:hi], flags=re.S)
                    if n != cnt:
                        # the normalised construct occurs more or less often than on the tree the contracts were written
                        # for: the functions of this item that follow are isolated (contract assumed), their properties
                        # are UNDECIDED, everything else is still decided
                        reason = '%s:%d rewrite matched %d != %d: %s' % (os.path.basename(path), sub.lineno, n, cnt, rx)
                        later = False
                        for sub2 in top.subs:
                            if sub2 is sub:
                                later = True
                            elif later and sub2.kind == 'fn':
                                nm = sub2.arg.split()[0]
                                info['lost_fns'][nm] = {'reason': reason, 'props': fn_props(sub2), 'missing': False}
                                skip = frozenset(skip) | {nm}
                        continue
                    s = s[:lo] + seg + s[hi:]
                    info['rewrites'].append(('rewrite', rx, n))
    for top in deferred:
        owner = top.owner
        if owner is None:
            raise SystemExit('%s:%d module without item' % (top.src, top.lineno))
        if id(owner) in dropped:
            continue
        mk = '/*VS:%s:%d*/' % (os.path.basename(owner.src), owner.lineno)
        k = s.find(mk)
        if k < 0:
            raise Lost('module marker for %s' % mk)
        k = s.find('\n', k) + 1
        s = s[:k] + OPEN + top.text() + CLOSE + s[k:]
    info['params'] = dict(PARAMS)
    info['copies'] = dict(COPIES)
    info['lost_hints'] = sorted(LOST_HINTS)
    info['root'] = '\n'.join(root_txt)
    info['log'] = log
    return s, info
