"""Regenerates MANIFEST.json from tools/props.py (single source for claimed / not applicable)."""
import json
import os
import sys
ROOT = os.path.dirname(os.path.dirname(os.path.abspath(__file__)))
sys.path.insert(0, os.path.join(ROOT, 'tools'))
import props as P

checks = []
for pid in P.CLAIMED:
    meta = P.META[pid]
    checks.append({
        'property_id': pid,
        'quick_cmd': 'bin/check %s --tier quick' % pid,
        'thorough_cmd': 'bin/check %s --tier thorough' % pid,
        'evidence_file': '/verif/evidence/%s.json' % pid,
        'replay_cmd_template': 'bin/check %s --replay {path}' % pid,
        'engine': meta['engine'],
        'level_claimed': {'category': 'proof', 'text': meta['text'], 'design_ref': meta['design_ref']},
        'level_note': meta['note'],
        'technique': meta['technique'],
    })
man = {
    'version': 1,
    'setup_cmd': 'bin/setup',
    'hooks': {
        'guard': 'evalexpr_verif',
        'enable': 'none needed: contracts are spliced into a scratch copy of the sources extracted from /repo on every run (cfg(kani) exists only in the Kani scratch copy); /repo carries no hooks',
        'baseline_off_cmd': 'cd /repo && cargo test --workspace --no-fail-fast --offline',
        'source_commits': [],
        'add_only': True,
    },
    'engines': [
        {'name': 'verus', 'path': 'tools/engines.py', 'serves_properties': P.CLAIMED, 'kind_free_text': 'Verus 0.2026.09.13 (Z3): contracts in contracts/*.vc spliced into the mechanically extracted real sources'},
        {'name': 'kani', 'path': 'tools/kani_engine.py', 'serves_properties': sorted(P.USES_KANI), 'kind_free_text': 'Kani 0.68 / CBMC 6.11: loop-free full-domain harnesses on the numeric leaves and per-(builtin, argument shape) harnesses through the real dispatch; bounded stand-ins labelled'},
    ],
    'checks': checks,
    'not_applicable': [{'property_id': k, 'reason': v} for k, v in sorted(P.NOT_APPLICABLE.items())],
    'notes': 'Contract-based deductive verification of the real code; see DESIGN.md. Exit 2 + UNDECIDED = tool limit, never an alarm.',
}
json.dump(man, open(os.path.join(ROOT, 'MANIFEST.json'), 'w'), indent=1)
print('MANIFEST.json written:', len(checks), 'checks')
