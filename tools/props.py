"""Per-property metadata used by the driver and the evidence writer."""

CLAIMED = ['C01', 'C02', 'C03', 'C04', 'C05', 'C06', 'C07', 'C08', 'C09', 'C10', 'C11', 'C12', 'C13', 'C14']
PENDING = []

NOT_APPLICABLE = {
    'C15': 'quantifies over thread schedules: Verus verifies sequential code (its concurrency support needs different code), Kani has no thread support; Send/Sync is decided by rustc, not by a contract',
    'C16': 'behaviour lives in serde-derive/ron generated code behind the serde feature; single-file Verus cannot link serde offline and Kani cannot bound the generated deserializers; no contract on code in /repo decides it',
}

for _p in PENDING:
    NOT_APPLICABLE[_p] = 'not claimed yet: contracts for this property are still being built (see DESIGN.md section 5)'

# conjuncts of each property that no discharged obligation covers (reported in evidence)
NOT_DECIDED = {
    'C01': ['stack depth of the recursive functions (insert_back_prioritized, evaluators, Display, Drop): recursion terminates, its depth is not bounded',
            'the formatting machinery itself (Formatter::write_fmt, Display/Debug of std types, derived Debug) and nested Display calls are assumed to return normally',
            'user functions are assumed not to panic (stated in the property); float operations and libm cannot panic by IEEE semantics (not proved)',
            'iter_variable_names, derive-generated code (Clone, PartialEq, Debug) and the serde feature are outside the verified text'],
    'C02': ['the single whole-input statement "in-order yield of the tree == token sequence" (its loop invariant costs 6-14 min and exhausts the resource limit); every step of the builder is pinned instead (ins_step / seq_step / ins_post)',
            'uniqueness of the tree for a token sequence as one theorem (follows from the pinned steps, not mechanised)'],
    'C04': ['independence of clones (derive(Clone): ownership, decided by rustc)', 'the hash-map iteration behind iter_variables / iter_variable_names (std); only the per-binding mapping is proved'],
    'C05': ['closed-form "flat tuple of all elements" for a whole input as one theorem; the separator steps and the collapse functions are pinned individually'],
    'C06': ['std::str::parse for floats and decimal integers (uninterpreted parse_spec); radix-16 parsing only by the bounded Kani stand-in (ASCII strings of length <= 2)',
            'Display of partial tokens used for the scientific-notation join (fmt_sci assumed to concatenate the three texts)'],
    'C07': ['the quantified corollary "separators can be exchanged" over whole inputs; the per-stage equalities split / comment_skip / lex2 that imply it are proved',
            'char::is_whitespace is an uninterpreted predicate (the Unicode table is std)'],
    'C08': ['the ordered log of user-function calls (functions are modelled as pure: call_spec); order and first-error-wins are proved for values, errors and the variable map'],
    'C09': ['that cloning a HashMapContext preserves the switch (derive(Clone))', 'the name -> closure table of builtin_function is checked by Kani dispatch cases (one per macro-generated float builtin in the quick tier), not by Verus'],
    'C10': ['values of libm functions and of str::trim / to_uppercase / to_lowercase (uninterpreted std functions; routing and argument order proved)',
            'Display of values behind str::from (fmt_display assumed)'],
    'C11': ['nothing beyond the assumptions of C08 (user functions pure)'],
    'C12': ['string-level forms are proved relative to the named relations tokenize_post / tree_post of the two front-end stages', 'equality of results is up to type-error identity (norm) for the type-error class'],
    'C13': ['"never evaluates successfully in any context" is proved per operator (arity contract of Operator::eval) and per insertion (ins_ok); the quantified statement over whole inputs is not one theorem'],
    'C14': ['the composition `SOURCE.filter_map(closure)` itself (std adapter; Node::iter() / iter_operators_mut() return `impl Iterator`, so the traversal contract does not travel through them): the traversal (NodeIter, erased OperatorIterMut) and each closure body are proved separately',
            'OperatorIterMut is proved on its mutability-erased copy (X20); that erasing `mut` from the borrows of the tree preserves which nodes are visited, and the soundness of the mutable borrows, rest on rustc',
            'the renaming corollary and "evaluation reports only listed names" (whole-program consequences) are not stated as obligations'],
    'C03': ['value of i64 `%` (Ok result of checked_rem is the truncated remainder): no installed SAT/SMT back end proves any fact about it within 15 min; rests on std::i64::checked_rem',
            'value of i64 `/` is proved only in the thorough tier (harness int_checked_div_value, 150-350 s); the quick tier proves the Ok/Err partition and the error payload',
            'IEEE-754 arithmetic itself (f_add .. f_pow are uninterpreted): routing, promotion and operand order are proved, the hardware operation is trusted',
            'lexicographic order of std String comparison is assumed (str_cmp uninterpreted)'],
}

# which engines a property uses
USES_KANI = {'C01', 'C03', 'C06', 'C10'}

_TB = ('Trusted: contracts/preamble.rs (std items without vstd specs, derived Clone/PartialEq, String/Vec extensionality, Peekable laws), the abstract numeric '
       'instance (its integer contracts are proved for i64 by Kani; float operations uninterpreted), user functions pure and non-panicking, 64-bit usize. '
       'Every assumption of the run is listed in evidence.coverage.trusted_base; everything not decided in evidence.coverage.not_decided.')
META = {
    'C01': dict(engine='verus+kani', design_ref='0, 3.5, 6', technique='contract-based deductive verification: Verus panic-freedom/termination obligations on the real functions; Kani function proofs on the i64 leaves and builtin dispatch',
                text='Panic-freedom and termination are obligations of every exec function Verus verifies (unwrap, unreachable!, indexing, str slicing, integer overflow are failed preconditions): operator evaluation, both evaluators and all wrappers, the tree builder (stack-shape invariant discharges both unreachable!()s), both tokenizer stages, the contexts, the explicit builtins, NodeIter and the erased OperatorIterMut, the six Display bodies (copies with write!/format! replaced by opaque calls). A function whose proof text is lost on a changed tree is probed once more with its contract only: a failed panic-freedom obligation whose panic is reproduced on the real crate is reported. i64 leaves and macro-generated builtins by loop-free Kani harnesses over all payloads. Unbounded for the functions under contract.',
                note=_TB + ' The Display bodies, the identifier-filter closure bodies, OperatorIterMut and the iter_variables closure are verified on mechanical copies (X19-X22). Not decided: the formatting machinery itself and derived Debug, stack depth (recursion), iter_variable_names.'),
    'C02': dict(engine='verus', design_ref='0, 4', technique='contract-based deductive verification (Verus): table contracts, insertion contract ins_ok/ins_post, token-mapping obligation, yield lemma, token conservation',
                text='Precedence/arity/associativity and token-class tables proved equal to the documented table; insert_back_prioritized proved to place each node exactly where precedence climbing puts it (free slot / rotation / descent by binds_into); the node created for each token proved to be op_of(token, previous-token-can-end-an-operand, next token); spec-level theorem: a successful insertion extends the in-order yield on the right; token conservation: the tree accounts for every token other than a parenthesis exactly once (w_node(tree) == ntok(tokens)); each builder step pinned by ins_step (the node goes into the element being parsed, nothing else moves).',
                note=_TB + ' The whole-grammar uniqueness theorem (one tree per token sequence) is not mechanised; the per-step contracts are.'),
    'C03': dict(engine='verus+kani', design_ref='0, 3.4', technique='contract-based deductive verification (Verus postcondition = reference semantics op_spec; Kani proves the integer contracts for i64)',
                text='Operator::eval proved to return exactly op_spec (written from the property text; one ensures clause per operator) for every argument list; the integer contracts assumed on the abstract instance are proved for i64 by Kani over all 2^128 operand pairs.',
                note=_TB + ' IEEE operations are uninterpreted deterministic functions (routing/promotion/operand order proved, hardware arithmetic trusted); String ordering assumed lexicographic; value of i64 % not proved (no installed back end terminates), value of i64 / only in the thorough tier.'),
    'C04': dict(engine='verus', design_ref='0, 4', technique='contract-based deductive verification (Verus abstract-map refinement, whole-view postconditions)',
                text='Every HashMapContext operation proved to refine an abstract map view with whole-view postconditions (set_spec: type-safe insert or unchanged); eval_mut proved against opmut_spec (x op= e is x = x op e, read after the right-hand side); both evaluators thread the map.',
                note=_TB + ' HashMap get/insert/get_mut/clear specs assumed; derive(Clone) independence (ownership) not in reach; of iter_variables the per-binding mapping is proved (X21), the hash-map iteration is std.'),
    'C05': dict(engine='verus', design_ref='0, 4', technique='contract-based deductive verification (Verus): evaluation arms + level-grammar stack invariant + token conservation',
                text='Tuple/Chain/RootNode arms proved against op_spec; the evaluators evaluate every element in order; the stack of open nodes is proved to follow the level grammar Root (Chain)? (Tuple)? with the last child of an open sequence being the root of the element being parsed, an open sequence holding at least two elements, and (token conservation, through the builder loop and both collapse functions) every separator standing for exactly one more element of its sequence: w_node(tree) == number of non-parenthesis tokens; each separator step pinned by the relation seq_step (which sequence gets the new element, where a finished tuple goes, element order included).',
                note=_TB + ' The closed-form shape theorem (flat tuple of all elements for every input) is not mechanised.'),
    'C06': dict(engine='verus+kani', design_ref='0, 4', technique='contract-based deductive verification (Verus, unbounded): lexer stages against lex2 / split / str_lit; Kani bounded stand-in (strings of <= 2 ASCII bytes) for the radix-16 parser of the default integer type',
                text='partial_tokens_to_tokens proved equal to the documented lexical rule lex2 for all inputs (int, float, bool, scientific join, identifier; longest match); parse_string_literal/parse_escape_sequence proved against str_lit; parse_dec_or_hex proved to choose hex after 0x; tokenize = lex2 after split. Bounded (labelled, not counted as proved): i64::from_hex_str parses radix 16 for every ASCII string of length 1 or 2.',
                note=_TB + ' std number parsers, Display of partial tokens (scientific join text) and char::is_whitespace are uninterpreted.'),
    'C07': dict(engine='verus', design_ref='0, 4', technique='contract-based deductive verification (Verus, unbounded): split / comment_skip',
                text='str_to_partial_tokens proved equal to split: every whitespace character and every comment contributes one separator, string literals are taken before comment recognition; try_skip_comment proved against comment_skip (line_rest / block_rest).',
                note=_TB + ' The quantified exchange-of-separators corollary over whole inputs is not mechanised.'),
    'C08': dict(engine='verus', design_ref='0, 4', technique='contract-based deductive verification (Verus postcondition = reference interpreter run_imm / run_mut)',
                text='Both evaluators proved equal to one recursive left-to-right, first-error-wins reference interpreter threading the variable map; op-assign reads after the right-hand side.',
                note=_TB + ' The ordered log of user-function calls is not expressible (functions assumed pure).'),
    'C09': dict(engine='verus', design_ref='0, 4', technique='contract-based deductive verification (Verus)',
                text='FunctionIdentifier arm proved against call_resolution (context first, builtins only on not-found and if enabled); builtin-switch contracts on the three contexts; identifier classification (write / function / read by one token of lookahead) proved in the tree builder.',
                note=_TB + ' builtin_function is an assumed name -> function table (its values are C10).'),
    'C10': dict(engine='verus+kani', design_ref='0, 3.2 X17', technique='contract-based deductive verification: explicit builtin closures outlined mechanically and proved in Verus; macro-generated builtins and i64 leaves by Kani through the real dispatch',
                text='abs, typeof, if, contains, contains_any, len, min, max (fold + meaning lemmas under IEEE order axioms), str::substring (same unit as len, errors when out of range / off a char boundary), str::* routing proved in Verus for tuples of any length; math/bit/shift builtins per concrete shape with fully symbolic payloads by Kani (libm replaced by tagged stubs: routing, argument order, promotion).',
                note=_TB + ' libm values, std text transformations and Display of values trusted; 69 Kani error-path shapes not decided (CBMC cost).'),
    'C11': dict(engine='verus', design_ref='0, 4', technique='contract-based deductive verification (Verus) + spec-level lemma lemma_c11',
                text='Read-only evaluator proved equal to run_imm with the context untouched; lemma: run_imm is ContextNotMutable or agrees with run_mut which then left the variables unchanged, and they always agree without assignment operators; default set_value proved to reject (X11).',
                note=_TB),
    'C12': dict(engine='verus', design_ref='0, 4', technique='contract-based deductive verification (Verus projection contracts on all 45 entry points, generated)',
                text='Each typed entry point proved to return the projection of an admissible untyped result (payload / matching expected-type error carrying the value / errors unchanged / number converts ints); context-free forms evaluate in a fresh HashMapContext; string forms are tokenize ; build ; evaluate.',
                note=_TB + ' Equality of repeated evaluations holds up to type-error identity (norm).'),
    'C13': dict(engine='verus', design_ref='0, 4', technique='contract-based deductive verification (Verus): insertion contract, parenthesis accounting, token conservation, arity contract',
                text='tokens_to_operator_tree proved: Ok implies balanced parentheses, UnmatchedLBrace/UnmatchedRBrace imply unbalanced (one root node on the stack per open level); insert_back_prioritized succeeds exactly when ins_ok (a free operand slot never takes a binary operator, only a binary operator adopts the preceding operand); no token is dropped or duplicated by the builder (token conservation); Operator::eval rejects wrong arity.',
                note=_TB),
    'C14': dict(engine='verus', design_ref='0, 4', technique='contract-based deductive verification (Verus): abstract-view contract on NodeIter and on the mutability-erased OperatorIterMut, classification contracts on the ten filter closures',
                text='NodeIter::new / next and the mutability-erased copy of OperatorIterMut (X20) proved to yield exactly the remaining pre-order of the children (abstract view over the stack of slice iterators); the ten filter_map closure bodies of Node::iter_*identifiers*(_mut) (X19) proved to keep exactly the documented classes (assignment target / read variable / applied function) and to yield the occurrence name.',
                note=_TB + ' The filter_map composition and the renaming corollary are not stated as obligations.'),
}
