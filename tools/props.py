"""Per-property metadata used by the driver and the evidence writer."""

CLAIMED = ['C01', 'C02', 'C03', 'C04', 'C05', 'C06', 'C07', 'C08', 'C09', 'C10', 'C11', 'C12', 'C13', 'C14']
PENDING = []

NOT_APPLICABLE = {
    'C15': 'quantifies over thread schedules: Verus verifies sequential code (its concurrency support needs different code), Kani has no thread support; Send/Sync is decided by rustc, not by a contract',
    'C16': 'behaviour lives in serde-derive/ron generated code behind the serde feature; single-file Verus cannot link serde offline and Kani cannot bound the generated deserializers; no contract on code in /repo decides it',
}

for _p in PENDING:
    NOT_APPLICABLE[_p] = 'not claimed yet: contracts for this property are still being built (see DESIGN.md section 5)'

# conjuncts of each property that no discharged obligation covers (reported in evidence)
NOT_DECIDED = {
    'C14': ['the ten filter_map closures of Node::iter_*identifiers* (impl Iterator + closures: outside Verus): classification into write / function / read sub-sequences',
            'OperatorIterMut (yields &mut into a tree it keeps iterating: beyond the installed Verus) and therefore all *_mut variants and the renaming corollary',
            'Node::iter() returns `impl Iterator`, so the NodeIter contract does not travel through it'],
    'C03': ['value of i64 `%` (Ok result of checked_rem is the truncated remainder): no installed SAT/SMT back end proves any fact about it within 15 min; rests on std::i64::checked_rem',
            'value of i64 `/` is proved only in the thorough tier (harness int_checked_div_value, 150-350 s); the quick tier proves the Ok/Err partition and the error payload',
            'IEEE-754 arithmetic itself (f_add .. f_pow are uninterpreted): routing, promotion and operand order are proved, the hardware operation is trusted',
            'lexicographic order of std String comparison is assumed (str_cmp uninterpreted)'],
}

# which engines a property uses
USES_KANI = {'C01', 'C03', 'C10'}

_V = 'Verus obligations (requires/ensures/invariants spliced into the extracted real functions) discharged by Z3'
META = {
    'C01': dict(engine='verus+kani', design_ref='5 C01', technique='contract-based deductive verification (Verus panic-freedom obligations; Kani on i64 leaves and builtins)',
                text='Panic-freedom is the implicit obligation of every exec function Verus verifies (unwrap/unreachable/index/overflow are failed preconditions); leaves and builtins by Kani. Unbounded for the functions under contract.',
                note='Trusted: preamble assume_specifications for std items, abstract numeric instance (contracts proved for i64 by Kani), user functions non-panicking, Display/Debug formatting and stack depth not modelled; functions outside the verified set are listed in evidence.'),
    'C02': dict(engine='verus', design_ref='5 C02', technique='contract-based deductive verification (Verus): table contracts + insertion contract',
                text='The precedence/arity/associativity tables are proved equal to the documented table for all 30 operators; token classification tables likewise.',
                note='Whole-grammar uniqueness theorem not mechanised; tables and insertion contract only. Trusted preamble as in C01.'),
    'C03': dict(engine='verus+kani', design_ref='5 C03', technique='contract-based deductive verification (Verus postcondition = reference semantics; Kani proves the i64 contracts)',
                text='Operator::eval is proved to return exactly the reference semantics op_spec (written from the property text) for every operator and every argument list; integer contracts assumed on the abstract instance are proved for i64 by Kani over all operand pairs.',
                note='IEEE operations are uninterpreted deterministic functions (routing/promotion/order proved, hardware arithmetic trusted); String ordering assumed lexicographic (std).'),
    'C04': dict(engine='verus', design_ref='5 C04', technique='contract-based deductive verification (Verus abstract-map refinement)',
                text='Every HashMapContext operation is proved to refine an abstract map view (whole-view postconditions); assignment arms of eval_mut proved against opmut_spec (x op= e == x = x op e).',
                note='HashMap get/insert/get_mut/clear specs assumed (vstd + preamble); derive(Clone) and iter_variables not in reach (stated).'),
    'C05': dict(engine='verus', design_ref='5 C05', technique='contract-based deductive verification (Verus)',
                text='Tuple/Chain/RootNode evaluation arms proved against the reference semantics; sequence shape invariant of the tree builder where discharged.',
                note='See evidence.not_decided for the tree-builder part.'),
    'C06': dict(engine='verus+kani', design_ref='5 C06', technique='contract-based deductive verification (Verus lexical contract; Kani bounded string scanner)',
                text='partial_tokens_to_tokens proved against the documented lexical rule for all inputs; string-literal scanner bounded by Kani.',
                note='std number parsers trusted; bounded part labelled.'),
    'C07': dict(engine='verus+kani', design_ref='5 C07', technique='contract-based deductive verification (Verus/Kani)',
                text='Comment/whitespace separator contract on the stage-1 tokenizer.',
                note='bounded part labelled.'),
    'C08': dict(engine='verus', design_ref='5 C08', technique='contract-based deductive verification (Verus postcondition = reference interpreter)',
                text='Both evaluators proved equal to one recursive left-to-right, first-error-wins reference interpreter threading the variable map.',
                note='User functions assumed deterministic/pure: the ordered call log is not expressible (stated).'),
    'C09': dict(engine='verus', design_ref='5 C09', technique='contract-based deductive verification (Verus)',
                text='FunctionIdentifier arm proved against the resolution order (context first, builtins only on not-found and if enabled); builtin switch contracts on the three contexts.',
                note='builtin_function is an assumed name->function table (its values are C10).'),
    'C10': dict(engine='kani', design_ref='5 C10', technique='contract-based verification with Kani: full-domain loop-free harnesses per (builtin, argument shape) through the real dispatch',
                text='i64 leaf contracts complete over all inputs; builtins per concrete shape with symbolic payloads.',
                note='libm values trusted (routing proved with stubs); string payloads bounded (labelled).'),
    'C11': dict(engine='verus', design_ref='5 C11', technique='contract-based deductive verification (Verus) + spec-level projection lemma',
                text='Immutable evaluator proved equal to the reference interpreter in Immut mode with unchanged variables; default set_value proved to reject.',
                note='as C08.'),
    'C12': dict(engine='verus', design_ref='5 C12', technique='contract-based deductive verification (Verus projection contracts on all wrappers)',
                text='Each typed entry point proved to return the projection of an admissible untyped result.',
                note='tokenize/tree builder named by uninterpreted spec functions (determinism assumed for the string-level forms).'),
    'C13': dict(engine='verus', design_ref='5 C13', technique='contract-based deductive verification (Verus)',
                text='Arity check contract of Operator::eval (wrong-arity node never evaluates successfully); tree-builder contracts where discharged.',
                note='see evidence.not_decided.'),
    'C14': dict(engine='verus', design_ref='5 C14', technique='contract-based deductive verification (Verus abstract-view contract on NodeIter)',
                text='NodeIter::next proved to yield the remaining pre-order.',
                note='filter closures and OperatorIterMut not in reach (stated).'),
}
