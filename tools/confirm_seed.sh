#!/bin/sh
# usage: confirm_seed.sh <worktree> : confirms (suite passes with change, demo fails with change, demo passes without)
wt=$1
cd $wt || exit 2
mkdir -p /tmp/seedtmp; cp tests/seeded_demo.rs /tmp/seedtmp/demo_$$.rs
mv tests/seeded_demo.rs /tmp/seedtmp/moved_$$.rs
suite=$(cargo test --offline 2>&1 | grep -E "^test result" | awk '{p+=$4; f+=$6} END {print p" passed "f" failed"}')
mv /tmp/seedtmp/moved_$$.rs tests/seeded_demo.rs
with=$(cargo test --offline --test seeded_demo 2>&1 | grep -E "^test result" | head -1)
git stash push -q -- src
without=$(cargo test --offline --test seeded_demo 2>&1 | grep -E "^test result" | head -1)
git stash pop -q
echo "suite(with change): $suite | demo with change: $with | demo without: $without"
