"""Witness search for refuted Verus obligations (DESIGN 3.6).

Verus gives no counterexample.  To attach a failing input to a violation it already reported, the check replays a
pool of inputs for the unit of the failed obligation against two builds of the real crate: /repo's working tree and
the last committed tree (git HEAD, on which the obligation was discharged).  An input on which the two behave
differently is reported as the witness (observed = working tree, expected = committed tree).  This search never
decides anything; when it finds nothing the violation is reported with `no-failing-input-found`.
"""
import os
import random
import shutil
import subprocess

import checklib as cl

EDGE_INTS = ['0', '1', '-1', '2', '3', '7', '-7', '63', '64', '9223372036854775807', '(-9223372036854775807 - 1)', '9007199254740992', '9007199254740993',
             '-9223372036854775807', '4611686018427387904']
EDGE_FLOATS = ['0.0', '-0.0', '1.5', '-2.5', '1e19', '-1e19', '2e19', '1e308', '5e-324', '9007199254740993.0', '(0.0/0.0)', '(1.0/0.0)']
STRS = ['""', '"a"', '"b"', '"ab"', '"aäb"', '"äöü"', '"a\\"b"', '"/* x */"', '"// y"']
BOOLS = ['true', 'false']
OTHER = ['()', '(1, 2)', '(1, (2, 3))', '((),)']
BINOPS = ['+', '-', '*', '/', '%', '^', '==', '!=', '<', '>', '<=', '>=', '&&', '||']
ASSIGN = ['=', '+=', '-=', '*=', '/=', '%=', '^=', '&&=', '||=']


def pool_operators():
    vals = EDGE_INTS + EDGE_FLOATS + STRS + BOOLS + OTHER
    out = []
    for op in BINOPS:
        for a in vals:
            for b in vals:
                out.append(('eval', '%s %s %s' % (a, op, b), []))
    for a in vals:
        out.append(('eval', '-%s' % a, []))
        out.append(('eval', '!%s' % a, []))
    return out


def pool_context():
    vals = ['1', '2.5', '"s"', 'true', '()', '(1, 2)', '(1, 2, 3)', '0.0', '-0.0', '-1', '0', '(0.0/0.0)', 'false']
    out = []
    for a in ['0.0', '-0.0']:
        for op in ASSIGN[1:]:
            for b in ['0.0', '-0.0', '-1', '1', '0']:
                out.append(('eval', 'x = %s; x %s %s; (x, 1 / x)' % (a, op, b), []))
    for a in vals:
        for b in vals:
            out.append(('eval', 'x = %s; x = %s; x' % (a, b), []))
            out.append(('eval', 'y = (x = %s); y = %s; y' % (a, b), []))
            for op in ASSIGN[1:]:
                out.append(('eval', 'x = %s; x %s %s; x' % (a, op, b), []))
    # left operands of assignments that are not bare identifiers, operands with side effects or failures
    lhs = ['x', '(x)', '(1 / 0)', '(a = 1; "v")', '"s"', '1', '(y = 2)', 'x + 1', 'missing']
    rhs = ['1', '(z = 5)', '(1 / 0)', 'x', 'missing', '(y = 7; y)']
    for l in lhs:
        for r in rhs:
            for op in ASSIGN:
                out.append(('eval', '%s %s %s' % (l, op, r), ['x=int:3']))
    out += [('eval', 'x = 1; y = x; x = 2; (x, y)', []), ('eval', 'a += 1', []), ('eval', 'a = 1; a += b', []), ('eval', 'x = 1; x = x + (x = 5)', [])]
    return out


def pool_eval():
    out = []
    # order of evaluation, first error wins, read-only vs mutable
    frags = ['a = 1', 'missing', '1 / 0', 'f(1)', 'true', 'false', '1', 'a', 'b = 2', '(a = 3; a)', 'nofn(2)', 'len("abc")']
    for x in frags:
        for y in frags:
            for op in ['+', '&&', '||', ',', ';', '==']:
                out.append(('eval', '%s %s %s' % (x, op, y), ['a=int:10']))
                out.append(('evalimm', '%s %s %s' % (x, op, y), ['a=int:10']))
    # identical operand expressions with side effects (each must be evaluated once), and operators lacking an operand
    for op in BINOPS + [',', ';']:
        out.append(('eval', '(a += 1; a) %s (a += 1; a)' % op, ['a=int:0']))
        out.append(('eval', '(b = !b; b) %s (b = !b; b)' % op, ['b=bool:0']))
        for x in ['1', 'true', '"s"', 'a', '()']:
            out.append(('eval', '%s %s' % (x, op), ['a=int:10']))
            out.append(('eval', '(%s %s)' % (x, op), ['a=int:10']))
            out.append(('evalimm', '%s %s' % (x, op), ['a=int:10']))
            out.append(('eval', '%s %s' % (op, x), ['a=int:10']))
    short = ['true', 'false', '1', '"text"', 'missing', '1 / 0', 'z = 1', 'zero != 0', 'a == 10', '()']
    for x in short:
        for y in short:
            for op in ['&&', '||']:
                out.append(('evalimm', '%s %s %s' % (x, op, y), ['a=int:10', 'zero=int:0']))
                out.append(('eval', '%s %s %s' % (x, op, y), ['a=int:10', 'zero=int:0']))
    return out


def pool_interface():
    exprs = ['1', '1.5', '"s"', 'true', '()', '(1, 2)', 'a', 'f', 's', 'a = 3', 'f = 3', 'f = 2.5', 'a = 1.5; a = 3', 'f = 1', 's = 1', 'a = "x"', 'b = true; b = 1', 't = (1, 2); t = 1',
             'missing', '1 / 0', '1 +', 'a + f', 'a + 1', 'f * 2', 'len(s)', 'a; f', 'a, f', '9007199254740993', 'x = 1.5; x = 3', 'x = 3; x = 1.5', '-a', '!b', 'if(true, 1, 2.5)', 'typeof(a)',
             't', 'u = t; u', 'e', '(t, e)', '+5', '-9223372036854775808', ' 5 ', '0x10', '5.0', '+5.5', '-0x8000000000000000', '1e3', 'TRUE', '  true', '"5"', '(5)', '5;', '5,',
             'z = 5; z == 5', 'z = true; z', 'z = 1; z', 'z = 1.5; z', 'z = "s"; z', 'z = (1, 2); z', 'z = 1;', 'z = 1; z + 0.5', 'a += 1; a', 'b &&= false; b', 's += "c"; s']
    binds = ['a=int:7', 'f=float:4612811918334230528', 's=str:6162', 'b=bool:1', 't=tuple:', 'e=empty']
    return [('typed', e, binds) for e in exprs] + [('typed', e, []) for e in exprs]


def pool_api():
    """scripted HashMapContext sequences; steps are (op, arg)"""
    evals = ['max(1, 3)', 'f(2)', 'x', 'len("ab")', 'x = 5', 'x = 2.5', 'typeof(x)', 'min(4, 2)', 'str::from(x)']
    pre = [[('disable', '')], [('enable', '')], [('disable', ''), ('enable', '')], [('set', 'x=int:1')], [('deff', 'f')], [('deff', 'max')], [('deff', 'len'), ('disable', '')],
           [('set', 'x=int:1'), ('deff', 'f'), ('disable', '')], [('set', 'x=float:4609434218613702656')], [('set', 'x=str:6162')], []]
    mid = [[('clear', '')], [('clearv', '')], [('clearf', '')], [('save', ''), ('disable', ''), ('swap', '')], [('save', ''), ('set', 'x=int:9'), ('deff', 'f'), ('swap', '')],
           [('disable', ''), ('save', ''), ('enable', ''), ('swap', '')], [('save', ''), ('clear', ''), ('swap', '')], [('eval', 'x = 7')], [('eval', 'x = "s"')], []]
    out = []
    for a in pre:
        for b in mid:
            for e in evals:
                out.append(('api', a + b + [('state', ''), ('eval', e), ('evalimm', e)], []))
    return out


def pool_display():
    """Display of values / trees / errors: values that literals cannot express arrive through bindings"""
    binds = ['v=tuple:', 'v=tuple:int:1', 'v=tuple:int:1;int:2', 'v=tuple:empty', 'v=empty', 'v=int:-9223372036854775808', 'v=float:9221120237041090560', 'v=float:9218868437227405312',
             'v=float:9223372036854775808', 'v=str:', 'v=str:2261c3a422', 'v=bool:0', 'v=tuple:str:61;float:0']
    out = []
    for b in binds:
        for e in ['v', 'str::from(v)', '(v, v)', 'v + 1', 'v == v', 'len(v)', 'typeof(v)', 'v = 1', 'min(v)', 'max(v)', 'contains(v, 1)', 'contains_any(v, v)', 'if(true, v, v)', 'str::trim(v)', 'math::abs(v)']:
            out.append(('eval', e, [b]))
    out += [('tree', e, []) for e in ['()', '(())', '((), ())', ';', ',', '1, (), 2', 'f()', 'a = ()', '-()', '"\\"q\\""', '(1, (2, (3, ())))']]
    return out


def pool_iter():
    exprs = ['a', 'a + b', 'f(a)', 'f()', 'f() + b', 'now() + offset', 'a = 1;; b = a + c', 'f((), x) * y', '(); a', '(), a', ';;a', 'a;;', 'a = b', 'a += b; c', 'f g h', 'f(g(h), i) + j',
             '(a, (b, c)), d', '((a))', '-a ^ -b', 'a = f(b = c)', '1; 2; x', 'f(();())', 'min(a, ()) + z', '((),(),w)', 'p(q();r)', '""; k', 'true && b || c', 'total = total + step; other = total', 'a = a + 1; a', '(a, b) = f(c, d)', 'x += y; z -= w', 'f(a, g(b, c), d); e', '(a; b, c); d']
    return [('iter', e, []) for e in exprs]


def pool_tree():
    atoms = ['1', 'a', '(2)', '()', 'f(3)', '-4', '!true', '"s"', 'g 5', '2^3', '(1, 2)']
    ops = ['+', '-', '*', '/', '%', '^', '==', '<', '&&', '||', '=', '+=', ',', ';']
    out = []
    for x in atoms:
        for op in ops:
            for y in atoms:
                out.append(('tree', '%s %s %s' % (x, op, y), []))
                for op2 in ['+', '*', '^', ',', ';', '=']:
                    out.append(('tree', '%s %s %s %s 7' % (x, op, y, op2), []))
    malformed = ['+ 1 2', '1 + * 2 3', '1 + 4()', '-1()', '(4)()', '1+(4)()', 'min(1,2)()', '4(5)', '(1', '1)', '((1)', '1 2', '1 + ', '* 2', '(* 3 4)', '= 5', 'a b c',
                 '1, 2; 3', '1; 2, 3; 4', 'a, b; c, d', ';;', ',,', '(,)', '(;)', '1,;2', '-2^-3', '2^--3', '--2', '!-1', '-!true', 'a = b = 3', 'f g 2', '1 - -1', '-x^-n',
                 '1 * -2^-3', '1, 2^-2', 'a = 2; a^-2', '1; 2^-3, 4', '(1, 2^-2)', '1, -2^2', '1, !true', 'x = 1; x, 2; x + 1', '1,2;3,4;5,6', '(1,2;3)', '1, (2; 3), 4']
    # every arrangement of up to five items from {operand, `,`, `;`} and a few with a parenthesised group
    import itertools
    for n in range(1, 6):
        for combo in itertools.product(['1', ',', ';'], repeat=n):
            malformed.append(' '.join(combo))
    for n in (3, 4, 5):
        for combo in itertools.product(['1', ',', ';', '(', ')'], repeat=n):
            if '(' in combo or ')' in combo:
                malformed.append(' '.join(combo))
    out += [('tree', m, []) for m in malformed] + [('eval', m, ['a=int:1', 'b=int:2', 'c=int:3', 'x=int:2', 'n=int:3']) for m in malformed]
    return out


def pool_lexer():
    words = ['"a\r\nb"', '"\r\n"', '"a\rb"', '0 /* x *', '1 + 2 /**', 'a /* todo **', '1 /*', '"\\', '"a\\', '""', '"\\\\"'] + ['"\\\u0122"', '"\\\u015c"', '"\\\u0422"', '"\\a"', '"\\n"', '"\\\u4e22"', '"\u0122\\"', '1\u000b+\u000b2', '1\u000c+\u000c2', '1\r+\r2', '1\u0085+\u00a02', '1\u2028+\u30002', 'a\u000bb', '1\u200b+2', '1', '25', '0x1F', '0xg', '0xe', '0x1e', '0xE5', '0xdeadbeef', '0x1e-3', 'π', 'aé', 'maß', '1.5', '.5', '5.', '1e3', '1E3', '25E-1', '1e-3', '5e-3-2e-3', '1e+3', '1e+', 'e+3', 'true', 'false', 'True', 'abc', 'a_1', '1a', 'ä',
             '"x"', '"a\\\\b"', '"a\\"b"', '"a\\nb"', '"unterminated', '"/**/"', '9223372036854775807', '9223372036854775808', '0x7fffffffffffffff', '0x8000000000000000',
             '1e400', '0x', '1_000']
    seps = ['', ' ', '\t', '\n', ' ', ' ', '/**/', '/* c */', '// c\n', '/*', '/*/', '/**//**/', ' /**/ ']
    ops = ['+', '-', '*', '/', '%', '^', '==', '!=', '<=', '>=', '&&', '||', '=', '+=', '&&=', '||=', '!', '&', '|', '<', '>']
    out = []
    for w in words:
        out.append(('tree', w, []))
        for s in seps:
            for o in ops[:8] + ops[12:16]:
                out.append(('tree', 'a%s%s%s%s' % (s, o, s, w), []))
            out.append(('tree', 'a%sb' % s, []))
            out.append(('tree', '%s%s%s' % (w, s, w), []))
    for o in ops:
        for s in seps:
            if len(o) == 2:
                out.append(('tree', 'a %s%s%s b' % (o[0], s, o[1]), []))
            if len(o) == 3:
                out.append(('tree', 'a %s%s%s b' % (o[:2], s, o[2]), []))
                out.append(('tree', 'a %s%s%s b' % (o[0], s, o[1:]), []))
    return out


def pool_builtins():
    args = ['1', '-1', '2.5', 'true', '"aäb"', '()', '(1, 2)', '1, 2', '2.5, 1', '1, 2, 3', '(1, 2), 1', '(1, 2), (2, 3)', '(1, 2), (2, (1,))', '(1,2),(2,())', '"aäb", 1', '"aäb", 1, 2',
            '"abc", 1, 3', '"abc", 3, 1', '"foobar", 7, 7', '"", 1, 1', '"äb", 1, 1', '"abc", 3, 3', '"abc", 0, 0', '"abc", 4', '"abc", 3', '"äb", 1', '"äb", 0, 1', '"äb", 2, 1', '"abc", -1', 'true, 1, 2', 'false, 1, 2', '1, 1, 2', '1e19, 2e19', '-1e19, -2e19', '9223372036854775807, 9.3e18', '(-9223372036854775807 - 1)',
            '1, 64', '1, -1', '1, 63', '("foo", "bar"), ("bar", (1, 2, 3))', '(1, 2, 3), (3, ())']
    names = ['min', 'max', 'len', 'if', 'contains', 'contains_any', 'typeof', 'math::abs', 'str::substring', 'str::from', 'str::trim', 'str::to_uppercase', 'str::to_lowercase',
             'bitand', 'bitor', 'bitxor', 'bitnot', 'shl', 'shr', 'floor', 'round', 'ceil', 'math::pow', 'math::log', 'math::atan2', 'math::hypot', 'math::sqrt', 'math::ln',
             'math::is_nan', 'math::is_finite', 'math::is_infinite', 'math::is_normal']
    return [('eval', '%s(%s)' % (n, a), []) for n in names for a in args]


def pool_functions():
    return [('eval', e, ['a=int:1']) for e in ['f(1)', 'f 1', 'f g 1', 'f()', 'f(1, 2)', 'len(1)', 'len("ab")', 'a(1)', 'f', 'f + 1', 'min(4, 2)', 'len((1,2,3))', 'typeof(f)']]


POOLS = [
    (('operator::eval', 'operator::eval_mut', 'value::', 'error::', 'vs::'), pool_operators),
    (('context::',), pool_api),
    (('context::',), pool_context),
    (('display_fmt__', 'display'), pool_display),
    (('interface::',), pool_interface),
    (('tree::iter', 'iter::'), pool_iter),
    (('tree::eval', 'interface::', 'tree::Node'), pool_eval),
    (('tree::insert', 'tree::collapse', 'tree::tokens_to', 'tree::has_', 'operator::precedence', 'operator::is_', 'operator::max_', 'token::is_'), pool_tree),
    (('token::',), pool_lexer),
    (('function::builtin',), pool_builtins),
    (('function::builtin',), pool_display),
]

_BASE = {}


def build_base(scratch, build_replay):
    """replay binary against the committed tree (git HEAD) of the repository under check"""
    if scratch in _BASE:
        return _BASE[scratch]
    repo = os.path.abspath(cl.REPO)
    d = os.path.join(scratch, 'base_tree')
    shutil.rmtree(d, ignore_errors=True)
    os.makedirs(d)
    try:
        p = subprocess.run('git -C %s archive HEAD | tar -x -C %s' % (repo, d), shell=True, capture_output=True, text=True)
        if p.returncode != 0 or not os.path.exists(os.path.join(d, 'Cargo.toml')):
            _BASE[scratch] = None
            return None
    except Exception:
        _BASE[scratch] = None
        return None
    rd = os.path.join(scratch, 'replay_base')
    shutil.rmtree(rd, ignore_errors=True)
    shutil.copytree(os.path.join(os.path.dirname(os.path.abspath(__file__)), 'replay_rs'), rd)
    open(os.path.join(rd, 'Cargo.toml'), 'w').write(
        '[package]\nname = "replay_rs"\nversion = "0.0.0"\nedition = "2021"\n[dependencies]\nevalexpr = { path = "%s" }\n[workspace]\n' % d)
    env = dict(os.environ, CARGO_NET_OFFLINE='true', CARGO_TARGET_DIR=os.path.join(rd, 'target'))
    p = subprocess.run(['cargo', 'build', '--offline', '-q'], cwd=rd, capture_output=True, text=True, env=env)
    exe = os.path.join(rd, 'target', 'debug', 'replay_rs') if p.returncode == 0 else None
    _BASE[scratch] = exe
    return exe


def encode(kind, expr, binds, hx):
    if kind == 'api':
        return '\t'.join(['api'] + ['%s:%s' % (op, hx(arg)) for op, arg in expr])
    return '\t'.join([kind, hx(expr)] + binds)


def show(kind, expr):
    if kind == 'api':
        return ' ; '.join(op + (' ' + arg if arg else '') for op, arg in expr)
    return expr


def search(prop, failure, scratch, seed, run_lines, hx, panic_only=False):
    ob = failure.get('obligation', '')
    if not ob.startswith('verus:'):
        return None
    fn = ob[len('verus:'):].split('#')[0]
    import witness
    # a panic of the working tree is conclusive by itself (C01 probe): no committed tree needed for comparison
    base = None if panic_only else build_base(scratch, None)
    if (not base and not panic_only) or not witness.build_replay(scratch):
        return None
    pools = [mk for keys, mk in POOLS if any(fn.startswith(k) or k in fn for k in keys)]
    rest = [mk for keys, mk in POOLS if mk not in pools]
    rng = random.Random(seed)
    for mk in pools + rest:
        cases = mk()
        # function calls need a context function: the replay driver only binds variables, so `f`/`g` stay unknown
        lines = [encode(kind, expr, binds, hx) for kind, expr, binds in cases]
        cur = run_lines(scratch, lines)
        if not cur:
            continue
        if panic_only:
            old = ['' for _ in lines]
        else:
            p = subprocess.run([base], input='\n'.join(lines) + '\n', capture_output=True, text=True, timeout=300)
            old = p.stdout.split('\n')[:len(lines)]
        diffs = [i for i in range(min(len(cur), len(old))) if cur[i] != old[i] and (not panic_only or (cur[i].startswith('PANIC') and not old[i].startswith('PANIC')))]
        if diffs:
            i = min(diffs, key=lambda k: len(show(cases[k][0], cases[k][1])))   # shortest differing input
            kind, expr, binds = cases[i]
            return {'kind': kind, 'input': '%s %r%s' % (kind, show(kind, expr), (' with ' + ', '.join(binds)) if binds else ''), 'expr': expr, 'binds': binds,
                    'observed': cur[i], 'expected': ('returns normally (Ok or Err), no panic' if panic_only else 'behaviour of the committed tree (obligation discharged there): ' + old[i]),
                    'differing_inputs_in_pool': len(diffs), 'pool': mk.__name__}
    return None
