//! Replay driver: executes recorded inputs against the real crate (path dependency on /repo's working
//! tree) through its public API under catch_unwind.  Line protocol on stdin (fields TAB separated,
//! strings hex encoded):
//!   eval <hex expr> [<name>=<value>]...     evaluate with a HashMapContext holding the bindings
//!   evalimm <hex expr> [<name>=<value>]...  same through the read-only entry point
//!   tree <hex expr>                         build_operator_tree, print the tree (Debug)
//!   typed <hex expr> [<name>=<value>]...    the seven typed string entry points (mutable context), all results
//!   api <op>:<hex arg> ...                  scripted use of one HashMapContext (set/eval/clear*/disable/enable/save/swap/deff)
//!   iter <hex expr>                         identifier iterators of the built tree, in order
//! value := int:<i64> | float:<u64 bits> | bool:<0|1> | str:<hex> | empty | tuple:<value>;<value>...
use evalexpr::*;
use std::io::BufRead;

fn unhex(s: &str) -> String {
    let b: Vec<u8> = (0..s.len() / 2).map(|i| u8::from_str_radix(&s[2 * i..2 * i + 2], 16).unwrap()).collect();
    String::from_utf8(b).unwrap()
}
fn val(s: &str) -> Value {
    if let Some(x) = s.strip_prefix("int:") { Value::Int(x.parse().unwrap()) }
    else if let Some(x) = s.strip_prefix("float:") { Value::Float(f64::from_bits(x.parse().unwrap())) }
    else if let Some(x) = s.strip_prefix("bool:") { Value::Boolean(x == "1") }
    else if let Some(x) = s.strip_prefix("str:") { Value::String(unhex(x)) }
    else if let Some(x) = s.strip_prefix("tuple:") { Value::Tuple(if x.is_empty() { vec![] } else { x.split(';').map(val).collect() }) }
    else { Value::Empty }
}
fn ctx(fields: &[&str]) -> HashMapContext {
    let mut c = HashMapContext::<DefaultNumericTypes>::new();
    for f in fields {
        if let Some((k, v)) = f.split_once('=') { c.set_value(k.to_string(), val(v)).unwrap(); }
    }
    c
}
fn vars(c: &HashMapContext) -> String {
    let mut v: Vec<(String, Value)> = c.iter_variables().collect();
    v.sort_by(|a, b| a.0.cmp(&b.0));
    format!("{:?}", v)
}
fn main() {
    std::panic::set_hook(Box::new(|_| {}));
    let stdin = std::io::stdin();
    for line in stdin.lock().lines() {
        let line = line.unwrap();
        let f: Vec<&str> = line.split('\t').collect();
        if f.is_empty() || f[0].is_empty() { continue; }
        let r = std::panic::catch_unwind(|| match f[0] {
            "eval" => { let mut c = ctx(&f[2..]); let r = eval_with_context_mut(&unhex(f[1]), &mut c); let shown = format!("{:?}", r); let _ = format!("{}", match &r { Ok(v) => v.to_string(), Err(e) => e.to_string() }); format!("{}\t{}", shown, vars(&c)) },
            "evalimm" => { let c = ctx(&f[2..]); let r = eval_with_context(&unhex(f[1]), &c); format!("{:?}\t{}", r, vars(&c)) },
            "tree" => { let r = build_operator_tree::<DefaultNumericTypes>(&unhex(f[1])); match &r { Ok(t) => { let _ = t.to_string(); }, Err(e) => { let _ = e.to_string(); } }; format!("{:?}", r) },
            "typed" => {
                let e = unhex(f[1]);
                let mut out = Vec::new();
                { let mut c = ctx(&f[2..]); out.push(format!("string={:?} {}", eval_string_with_context_mut(&e, &mut c), vars(&c))); }
                { let mut c = ctx(&f[2..]); out.push(format!("int={:?} {}", eval_int_with_context_mut(&e, &mut c), vars(&c))); }
                { let mut c = ctx(&f[2..]); out.push(format!("float={:?} {}", eval_float_with_context_mut(&e, &mut c), vars(&c))); }
                { let mut c = ctx(&f[2..]); out.push(format!("number={:?} {}", eval_number_with_context_mut(&e, &mut c), vars(&c))); }
                { let mut c = ctx(&f[2..]); out.push(format!("boolean={:?} {}", eval_boolean_with_context_mut(&e, &mut c), vars(&c))); }
                { let mut c = ctx(&f[2..]); out.push(format!("tuple={:?} {}", eval_tuple_with_context_mut(&e, &mut c), vars(&c))); }
                { let mut c = ctx(&f[2..]); out.push(format!("empty={:?} {}", eval_empty_with_context_mut(&e, &mut c), vars(&c))); }
                { let c = ctx(&f[2..]); out.push(format!("number_imm={:?}", eval_number_with_context(&e, &c))); }
                { let c = ctx(&f[2..]); out.push(format!("int_imm={:?}", eval_int_with_context(&e, &c))); }
                out.push(format!("number_fresh={:?} int_fresh={:?} string_fresh={:?}", eval_number(&e), eval_int(&e), eval_string(&e)));
                // the same through a precompiled tree (context-free, shared and mutable forms)
                match build_operator_tree::<DefaultNumericTypes>(&e) {
                    Ok(t) => {
                        out.push(format!("node_free: v={:?} s={:?} i={:?} f={:?} n={:?} b={:?} t={:?} e={:?}", t.eval(), t.eval_string(), t.eval_int(), t.eval_float(), t.eval_number(), t.eval_boolean(), t.eval_tuple(), t.eval_empty()));
                        let c = ctx(&f[2..]);
                        out.push(format!("node_imm: v={:?} s={:?} i={:?} f={:?} n={:?} b={:?} t={:?} e={:?}", t.eval_with_context(&c), t.eval_string_with_context(&c), t.eval_int_with_context(&c), t.eval_float_with_context(&c), t.eval_number_with_context(&c), t.eval_boolean_with_context(&c), t.eval_tuple_with_context(&c), t.eval_empty_with_context(&c)));
                        { let mut c = ctx(&f[2..]); out.push(format!("node_mut_v={:?} {}", t.eval_with_context_mut(&mut c), vars(&c))); }
                        { let mut c = ctx(&f[2..]); out.push(format!("node_mut_s={:?} {}", t.eval_string_with_context_mut(&mut c), vars(&c))); }
                        { let mut c = ctx(&f[2..]); out.push(format!("node_mut_i={:?} {}", t.eval_int_with_context_mut(&mut c), vars(&c))); }
                        { let mut c = ctx(&f[2..]); out.push(format!("node_mut_f={:?} {}", t.eval_float_with_context_mut(&mut c), vars(&c))); }
                        { let mut c = ctx(&f[2..]); out.push(format!("node_mut_n={:?} {}", t.eval_number_with_context_mut(&mut c), vars(&c))); }
                        { let mut c = ctx(&f[2..]); out.push(format!("node_mut_b={:?} {}", t.eval_boolean_with_context_mut(&mut c), vars(&c))); }
                        { let mut c = ctx(&f[2..]); out.push(format!("node_mut_t={:?} {}", t.eval_tuple_with_context_mut(&mut c), vars(&c))); }
                        { let mut c = ctx(&f[2..]); out.push(format!("node_mut_e={:?} {}", t.eval_empty_with_context_mut(&mut c), vars(&c))); }
                    },
                    Err(e) => out.push(format!("node: {:?}", e)),
                }
                out.push(format!("free: v={:?} f={:?} b={:?} t={:?} e={:?}", eval(&e), eval_float(&e), eval_boolean(&e), eval_tuple(&e), eval_empty(&e)));
                { let c = ctx(&f[2..]); out.push(format!("imm: s={:?} f={:?} b={:?} t={:?} e={:?}", eval_string_with_context(&e, &c), eval_float_with_context(&e, &c), eval_boolean_with_context(&e, &c), eval_tuple_with_context(&e, &c), eval_empty_with_context(&e, &c))); }
                out.join(" | ")
            },
            // scripted use of a HashMapContext: steps separated by TAB, each `op:<hex arg>`
            "api" => {
                let mut c = HashMapContext::<DefaultNumericTypes>::new();
                let mut saved: Option<HashMapContext> = None;
                let mut out = Vec::new();
                for step in &f[1..] {
                    let (op, arg) = step.split_once(':').unwrap_or((step, ""));
                    let arg = unhex(arg);
                    match op {
                        "disable" => { out.push(format!("{:?}", c.set_builtin_functions_disabled(true))); },
                        "enable" => { out.push(format!("{:?}", c.set_builtin_functions_disabled(false))); },
                        "clear" => c.clear(),
                        "clearv" => c.clear_variables(),
                        "clearf" => c.clear_functions(),
                        "save" => saved = Some(c.clone()),
                        "swap" => { if let Some(s2) = saved.take() { saved = Some(std::mem::replace(&mut c, s2)); } },
                        "deff" => { let k: i64 = 1000; out.push(format!("{:?}", c.set_function(arg.clone(), Function::new(move |a| Ok(Value::Tuple(vec![Value::Int(k), a.clone()])))))); },
                        "set" => { let (k, v) = arg.split_once('=').unwrap(); out.push(format!("{:?}", c.set_value(k.to_string(), val(v)))); },
                        "eval" => out.push(format!("{:?}", eval_with_context_mut(&arg, &mut c))),
                        "evalimm" => out.push(format!("{:?}", eval_with_context(&arg, &c))),
                        "state" => out.push(format!("{} disabled={}", vars(&c), c.are_builtin_functions_disabled())),
                        _ => out.push("?".into()),
                    }
                }
                out.push(format!("{} disabled={}", vars(&c), c.are_builtin_functions_disabled()));
                out.join(" | ")
            },
            "iter" => match build_operator_tree::<DefaultNumericTypes>(&unhex(f[1])) {
                Ok(mut t) => { let muts = format!(" ids_mut={:?} vars_mut={:?} fns_mut={:?} read_mut={:?} write_mut={:?}",
                    t.iter_identifiers_mut().map(|s| s.clone()).collect::<Vec<_>>(), t.iter_variable_identifiers_mut().map(|s| s.clone()).collect::<Vec<_>>(),
                    t.iter_function_identifiers_mut().map(|s| s.clone()).collect::<Vec<_>>(), t.iter_read_variable_identifiers_mut().map(|s| s.clone()).collect::<Vec<_>>(),
                    t.iter_write_variable_identifiers_mut().map(|s| s.clone()).collect::<Vec<_>>());
                  format!("ids={:?} vars={:?} fns={:?} read={:?} write={:?} nodes={}",
                    t.iter_identifiers().collect::<Vec<_>>(), t.iter_variable_identifiers().collect::<Vec<_>>(), t.iter_function_identifiers().collect::<Vec<_>>(),
                    t.iter_read_variable_identifiers().collect::<Vec<_>>(), t.iter_write_variable_identifiers().collect::<Vec<_>>(), t.iter().count()) + &muts },
                Err(e) => format!("{:?}", e),
            },
            _ => "?".to_string(),
        });
        match r {
            Ok(s) => println!("RET\t{}", s),
            Err(e) => {
                let msg = if let Some(s) = e.downcast_ref::<String>() { s.clone() } else if let Some(s) = e.downcast_ref::<&str>() { s.to_string() } else { "panic".into() };
                println!("PANIC\t{}", msg)
            },
        }
    }
}
