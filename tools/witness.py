"""Replay of counterexamples against the real crate (DESIGN 3.6).

from_kani : decode Kani's concrete-playback values of a failing harness into an evalexpr expression
search    : for a refuted Verus obligation, try a small edge pool of inputs for that unit against the
            real crate, judged by the expectation the property text gives (never decides anything:
            it only attaches a failing input to a violation the verifier already reported)
rerun     : re-execute a recorded input
"""
import os
import shutil
import struct
import subprocess

HERE = os.path.dirname(os.path.abspath(__file__))
ROOT = os.path.dirname(HERE)
import checklib as cl

_BUILT = {}


def hx(s):
    return s.encode('utf-8').hex()


def build_replay(scratch):
    if scratch in _BUILT:
        return _BUILT[scratch]
    d = os.path.join(scratch, 'replay_rs')
    shutil.rmtree(d, ignore_errors=True)
    shutil.copytree(os.path.join(HERE, 'replay_rs'), d)
    open(os.path.join(d, 'Cargo.toml'), 'w').write(
        '[package]\nname = "replay_rs"\nversion = "0.0.0"\nedition = "2021"\n[dependencies]\nevalexpr = { path = "%s" }\n[workspace]\n' % os.path.abspath(cl.REPO))
    env = dict(os.environ, CARGO_NET_OFFLINE='true', CARGO_TARGET_DIR=os.path.join(d, 'target'))
    p = subprocess.run(['cargo', 'build', '--offline', '-q'], cwd=d, capture_output=True, text=True, env=env)
    if p.returncode != 0:
        _BUILT[scratch] = None
        return None
    exe = os.path.join(d, 'target', 'debug', 'replay_rs')
    _BUILT[scratch] = exe
    return exe


def run_lines(scratch, lines):
    exe = build_replay(scratch)
    if not exe:
        return None
    p = subprocess.run([exe], input='\n'.join(lines) + '\n', capture_output=True, text=True, timeout=120)
    return p.stdout.split('\n')[:len(lines)]


def i64_of(bytes_):
    b = bytes(bytes_ + [0] * (8 - len(bytes_)))[:8]
    return struct.unpack('<q', b)[0]


def from_kani(h, pb, scratch):
    dec = h.get('decode')
    vals = pb.get('values') or []
    if not dec or not vals:
        return None
    ints = [i64_of(v['bytes']) for v in vals]
    kind = dec[0]
    binds = []
    if kind == 'binop' and len(ints) >= 2:
        expr = 'a %s b' % dec[1]
        binds = ['a=int:%d' % ints[0], 'b=int:%d' % ints[1]]
    elif kind == 'unop' and ints:
        expr = '%sa' % dec[1]
        binds = ['a=int:%d' % ints[0]]
    elif kind == 'call1' and ints:
        expr = '%s(a)' % dec[1]
        binds = ['a=int:%d' % ints[0]]
    elif kind == 'call2' and len(ints) >= 2:
        expr = '%s(a, b)' % dec[1]
        binds = ['a=int:%d' % ints[0], 'b=int:%d' % ints[1]]
    elif kind == 'builtin_cases':
        # find the refuted case by the case id carried in the failed check, then its payload values by position
        failed = ' '.join(pb.get('failed_checks') or [])
        off = 0
        chosen = None
        for cid, call, cvars, cdoc in dec[1]:
            if ('case ' + cid) in failed and chosen is None:
                chosen = (cid, call, cvars, cdoc, off)
            off += len(cvars)
        if chosen is None:
            return None
        cid, expr, cvars, cdoc, off = chosen
        h = dict(h, doc=cdoc)
        for (v, k), val in zip(cvars, vals[off:off + len(cvars)]):
            if k == 'int':
                binds.append('%s=int:%d' % (v, i64_of(val['bytes'])))
            elif k == 'float':
                binds.append('%s=float:%d' % (v, struct.unpack('<Q', bytes((val['bytes'] + [0] * 8)[:8]))[0]))
            else:
                binds.append('%s=bool:%d' % (v, 1 if val['bytes'] and val['bytes'][0] else 0))
    elif kind == 'hexlit' and len(vals) >= 3:
        b0 = vals[0]['bytes'][0] if vals[0]['bytes'] else 0
        b1 = vals[1]['bytes'][0] if vals[1]['bytes'] else 0
        two = bool(vals[2]['bytes'] and vals[2]['bytes'][0])
        lit = chr(b0) + (chr(b1) if two else '')
        if not all(c.isalnum() for c in lit):
            return None
        expr = '0x' + lit
    elif kind == 'float_member':
        # which member was refuted is named in the failed check; operands are the harness's x (and y)
        failed = ' '.join(pb.get('failed_checks') or [])
        import re as _re
        mm = _re.search(r'EvalexprFloat<N>>::(\w+)\(&x(, &y)?\)', failed)
        if not mm:
            return None
        name = mm.group(1)
        fn = name if name in ('floor', 'round', 'ceil') else 'math::' + name
        fbits = [struct.unpack('<Q', bytes((v['bytes'] + [0] * 8)[:8]))[0] for v in vals]
        if mm.group(2) and len(fbits) >= 2:
            expr = '%s(x, y)' % fn
            binds = ['x=float:%d' % fbits[0], 'y=float:%d' % fbits[1]]
        else:
            expr = '%s(x)' % fn
            binds = ['x=float:%d' % fbits[0]]
    elif kind == 'expr':
        return dec[1](h, vals, scratch)
    else:
        return None
    out = run_lines(scratch, ['\t'.join(['eval', hx(expr)] + binds)])
    inp = '%s with %s' % (expr, ', '.join(binds))
    return {'kind': 'eval', 'input': inp, 'expr': expr, 'binds': binds, 'observed': (out or ['replay build failed'])[0], 'expected': h.get('doc', '')}


def search(prop, failure, scratch, seed, panic_only=False):
    try:
        import witness_pools
    except ImportError:
        return None
    return witness_pools.search(prop, failure, scratch, seed, run_lines, hx, panic_only=panic_only)


def rerun(doc):
    scratch = cl.scratch_dir()
    if doc.get('replay_kind') in ('eval', 'evalimm', 'tree', 'typed', 'iter', 'api'):
        import witness_pools
        line = witness_pools.encode(doc['replay_kind'], [tuple(x) for x in doc['expr']] if doc['replay_kind'] == 'api' else doc['expr'], doc.get('binds') or [], hx)
        out = run_lines(scratch, [line])
        print('replay input   :', doc['input'])
        print('observed now   :', (out or ['replay build failed'])[0])
        print('observed then  :', doc.get('observed'))
        print('expected       :', doc.get('expected'))
        return 0
    print('replay: unsupported kind', doc.get('replay_kind'))
    return 0
