"""Kani engine (numeric leaves, builtins, bounded stand-ins). Filled in per property."""


def run(prop, tier, seed, scratch):
    return {'obligations': [], 'failures': [], 'trusted': [], 'cmds': [], 'bounded': [], 'wall': 0}
