"""Kani engine: numeric leaves (complete, loop-free, full-domain), builtins per (name, shape), bounded stand-ins.

The harness module is spliced into a scratch copy of /repo's current working tree (dev-dependencies and
Cargo.lock dropped: the library has no default dependencies) as `#[cfg(kani)] mod verif_kani;`.
"""
import json
import os
import re
import shutil
import subprocess
import sys
import time

HERE = os.path.dirname(os.path.abspath(__file__))
ROOT = os.path.dirname(HERE)
sys.path.insert(0, os.path.join(ROOT, 'kani'))
import checklib as cl
from checklib import Undecided


def load_harnesses():
    import importlib
    import harnesses
    importlib.reload(harnesses)
    hs = list(harnesses.H)
    try:
        import builtin_harnesses
        importlib.reload(builtin_harnesses)
        hs += builtin_harnesses.H
    except ImportError:
        pass
    return hs


def select(prop, tier):
    out = []
    for h in load_harnesses():
        if prop in h['props'] and (h['tier'] == 'quick' or tier == 'thorough'):
            out.append(h)
    return out


def render(hs):
    pre = open(os.path.join(ROOT, 'kani', 'harness_prelude.rs')).read()
    parts = [pre]
    try:
        import builtin_harnesses
        parts.append(builtin_harnesses.PRELUDE)
    except ImportError:
        pass
    for h in hs:
        attrs = h.get('attrs') or ''
        parts.append('// %s\n#[kani::proof]\n%sfn %s() {\n%s\n}\n' % (h.get('doc', ''), attrs + ('\n' if attrs else ''), h['name'], h['body']))
    return '\n'.join(parts)


def make_crate(scratch, hs):
    d = os.path.join(scratch, 'kani_crate')
    shutil.rmtree(d, ignore_errors=True)
    os.makedirs(d)
    shutil.copytree(os.path.join(cl.REPO, 'src'), os.path.join(d, 'src'))
    toml = open(os.path.join(cl.REPO, 'Cargo.toml')).read()
    toml2 = re.sub(r'\[dev-dependencies\].*?(?=\n\[|\Z)', '', toml, flags=re.S)
    open(os.path.join(d, 'Cargo.toml'), 'w').write(toml2)
    lib = os.path.join(d, 'src', 'lib.rs')
    s = open(lib).read()
    open(lib, 'w').write(s + '\n#[cfg(kani)]\nmod verif_kani;\n')
    open(os.path.join(d, 'src', 'verif_kani.rs'), 'w').write(render(hs))
    os.makedirs(os.path.join(d, '.cargo'))
    open(os.path.join(d, '.cargo', 'config.toml'), 'w').write('[net]\noffline = true\n')
    return d


def kani_cmd(names, jobs, extra=None):
    cmd = ['cargo', 'kani', '-Z', 'stubbing', '-Z', 'unstable-options', '--output-format', 'terse', '-j', str(jobs)]
    for n in names:
        cmd += ['--harness', 'verif_kani::' + n]
    cmd += ['--exact']
    # CBMC arguments must come last; the bound on memcmp serves the name match of the builtin dispatch
    cmd += ['--cbmc-args', '--unwindset', 'memcmp.0:24']
    return cmd


def parse_terse(out, names):
    """{harness: {'ok': bool, 'time': float, 'failed_checks': [..]}}"""
    res = {}
    # split per thread blocks: "Thread k: Checking harness verif_kani::name..." then later "Thread k: \nVERIFICATION RESULT: ... VERIFICATION:- X"
    thread_h = {}
    cur_thread = None
    lines = out.split('\n')
    i = 0
    single = None
    while i < len(lines):
        ln = lines[i]
        mm = re.match(r'^(?:Thread (\d+): )?Checking harness (?:verif_kani::)?([A-Za-z0-9_]+)', ln)
        if mm:
            t = mm.group(1)
            if t is None:
                single = mm.group(2)
            else:
                thread_h[t] = mm.group(2)
            i += 1
            continue
        mm = re.match(r'^Thread (\d+):\s*$', ln)
        if mm:
            cur_thread = mm.group(1)
        mm = re.match(r'^VERIFICATION:- (SUCCESSFUL|FAILED)', ln)
        if mm:
            name = thread_h.get(cur_thread) if cur_thread is not None else single
            if name:
                res.setdefault(name, {})['ok'] = mm.group(1) == 'SUCCESSFUL'
        mm = re.match(r'^Verification Time: ([0-9.]+)s', ln)
        if mm:
            name = thread_h.get(cur_thread) if cur_thread is not None else single
            if name:
                res.setdefault(name, {})['time'] = float(mm.group(1))
        mm = re.match(r'^Failed Checks: (.*)$', ln)
        if mm:
            name = thread_h.get(cur_thread) if cur_thread is not None else single
            if name:
                res.setdefault(name, {}).setdefault('failed_checks', []).append(mm.group(1))
        i += 1
    return res


def playback(crate, h, timeout):
    """rerun one failing harness with concrete playback; returns (values, raw)"""
    cmd = ['cargo', 'kani', '-Z', 'stubbing', '-Z', 'unstable-options', '--exact', '--harness', 'verif_kani::' + h['name'], '-Z', 'concrete-playback', '--concrete-playback=print', '--cbmc-args', '--unwindset', 'memcmp.0:24']
    env = dict(os.environ, CARGO_NET_OFFLINE='true')
    try:
        p = subprocess.run(cmd, cwd=crate, capture_output=True, text=True, timeout=timeout, env=env)
    except subprocess.TimeoutExpired:
        return None, 'playback timed out'
    out = p.stdout + p.stderr
    vals = []
    # concrete playback prints a unit test containing `vec![...]` byte vectors, one per kani::any() in order
    for mm in re.finditer(r'//\s*(-?[0-9.eE+naifNA]+)\s*\n\s*vec!\[([0-9, ]*)\]', out):
        vals.append({'repr': mm.group(1), 'bytes': [int(x) for x in mm.group(2).split(',') if x.strip()]})
    fails = re.findall(r'Failed Checks: (.*)', out)
    return {'values': vals, 'failed_checks': fails}, out[-5000:]


def run(prop, tier, seed, scratch):
    hs = select(prop, tier)
    if not hs:
        return {'obligations': [], 'failures': [], 'trusted': [], 'cmds': [], 'bounded': [], 'wall': 0}
    t0 = time.time()
    # only the selected harnesses are generated: Kani's code generation costs ~2.5 s per harness
    crate = make_crate(scratch, hs)
    env = dict(os.environ, CARGO_NET_OFFLINE='true')
    jobs = int(os.environ.get('VERIF_JOBS', '16'))
    # group harnesses by extra flags (unwind sets, stubbing)
    groups = {}
    for h in hs:
        groups.setdefault((), []).append(h)
    results = {}
    cmds = []
    budget = int(os.environ.get('VERIF_KANI_TIMEOUT', '3600' if tier == 'thorough' else '1500'))
    raw_all = ''
    for extra, group in groups.items():
        cmd = kani_cmd([h['name'] for h in group], min(jobs, len(group)), list(extra))
        cmds.append('CARGO_NET_OFFLINE=true ' + ' '.join(cmd))
        try:
            p = subprocess.run(cmd, cwd=crate, capture_output=True, text=True, timeout=budget, env=env)
        except subprocess.TimeoutExpired:
            raise Undecided('kani timed out after %ds on %d harnesses' % (budget, len(group)))
        out = p.stdout + '\n' + p.stderr
        raw_all += out[-20000:]
        if 'error: could not compile' in out or 'error[E' in out:
            errs = re.findall(r'error[^\n]*\n[^\n]*', out)[:3]
            raise Undecided('kani harness crate does not compile (signature drift?): %s' % ' | '.join(e.replace('\n', ' ') for e in errs)[:600])
        results.update(parse_terse(out, [h['name'] for h in group]))
    obligations = []
    failures = []
    bounded = []
    for h in hs:
        r = results.get(h['name'])
        if r is None or 'ok' not in r:
            raise Undecided('kani gave no verdict for harness %s: %s' % (h['name'], raw_all[-300:].replace('\n', ' ')))
        name = 'kani:' + h['name']
        ob = {'name': name, 'expected': 1, 'ok': r['ok'], 'time_ms': int(r.get('time', 0) * 1000), 'rlimit': None,
              'backend': 'cadical via cbmc (kani 0.68)', 'doc': h.get('doc', ''), 'bounded': h.get('bounded')}
        obligations.append(ob)
        if h.get('bounded'):
            bounded.append({'harness': h['name'], 'bound': h['bounded']})
        if not r['ok']:
            pb, raw = playback(crate, h, 900)
            w = None
            if pb:
                import witness
                w = witness.from_kani(h, pb, scratch)
            failures.append({'obligation': name + '#' + (';'.join((pb or {}).get('failed_checks') or r.get('failed_checks') or ['failed']))[:200],
                             'engine': 'kani', 'kind': 'kani', 'message': 'Kani refuted harness %s: %s' % (h['name'], h.get('doc', '')),
                             'clause': h['body'][:600], 'witness': w, 'output': raw})
    not_decided = []
    if prop in ('C10', 'C01'):
        try:
            import builtin_harnesses as bh
            if bh.SLOW:
                not_decided.append('builtin cases on which CBMC does not finish within 120 s (recursive drop glue of cloned Value/EvalexprError temporaries), not run and not counted: '
                                   + ', '.join(c['id'] for c in bh.SLOW))
        except ImportError:
            pass
    trusted = ['kani: CBMC bit-precise semantics of Rust MIR (Kani 0.68 / CBMC 6.11); termination not proved by Kani']
    return {'obligations': obligations, 'failures': failures, 'trusted': trusted, 'cmds': cmds, 'bounded': bounded, 'wall': time.time() - t0, 'not_decided': not_decided}
