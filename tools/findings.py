"""known_findings.txt: committed, never written at run time (DESIGN 3.7)."""
import os
import re

ROOT = os.path.dirname(os.path.dirname(os.path.abspath(__file__)))
PATH = os.path.join(ROOT, 'known_findings.txt')


def load():
    out = []
    if not os.path.exists(PATH):
        return out
    for line in open(PATH):
        line = line.strip()
        if not line or line.startswith('#'):
            continue
        mm = re.match(r'^finding: property=(\S+) obligation=(\S+) input=(.*?) :: (.*)$', line)
        if mm:
            out.append({'prop': mm.group(1), 'obligation': mm.group(2), 'input': mm.group(3), 'what': mm.group(4)})
    return out


def match(kf, prop, failure, witness):
    """a listed finding suppresses exactly one obligation+input pair"""
    for k in kf:
        if k['prop'] != prop or k['obligation'] != failure['obligation']:
            continue
        if witness and witness.get('input') == k['input']:
            return '%s input=%s :: %s' % (k['obligation'], k['input'], k['what'])
    return None
