"""Minimal lexical scanner for Rust source text.

Only what the extraction needs: tell code characters from comments / string / char
literals, match braces, find items, functions and loops by header.  Everything that cannot
be located raises Lost (the check then ends UNDECIDED, exit 2 -- never a violation).
"""
import re


BODY_MARK = '/*BODY*/'


class Lost(Exception):
    """An anchor of the extraction / injection rules no longer applies to the source."""


_TOK = re.compile(
    r"""//[^\n]*|/\*|b?"(?:\\.|[^"\\])*"|(?<![A-Za-z0-9_])r(\#*)"|'(?:\\x[0-9a-fA-F]{2}|\\u\{[0-9a-fA-F]+\}|\\.|[^\\'])'""",
    re.S)
_MASK_CACHE = {}


def code_mask(s):
    """bytearray m with m[i]==1 iff s[i] is a code character (not comment/string/char literal)."""
    key = hash(s)
    hit = _MASK_CACHE.get(key)
    if hit is not None and hit[0] == len(s):
        return hit[1]
    n = len(s)
    m = bytearray(b"\x01") * n
    pos = 0
    while True:
        mm = _TOK.search(s, pos)
        if not mm:
            break
        a = mm.start()
        t = mm.group(0)
        if t == '/*':
            depth = 1
            j = a + 2
            while j < n and depth:
                k1 = s.find('/*', j)
                k2 = s.find('*/', j)
                if k2 < 0:
                    j = n
                    break
                if 0 <= k1 < k2:
                    depth += 1
                    j = k1 + 2
                else:
                    depth -= 1
                    j = k2 + 2
            b = j
        elif t.startswith('r') and t.endswith('"') and mm.group(1) is not None:
            hashes = mm.group(1)
            k = s.find('"' + hashes, mm.end())
            if k < 0:
                raise Lost('unterminated raw string')
            b = k + 1 + len(hashes)
        else:
            b = mm.end()
        m[a:b] = b"\x00" * (b - a)
        pos = b
    if len(_MASK_CACHE) > 8:
        _MASK_CACHE.clear()
    _MASK_CACHE[key] = (n, m)
    return m


def match_close(s, m, i, open_c='{', close_c='}'):
    """s[i] must be open_c (code). Returns index of matching close_c."""
    assert s[i] == open_c and m[i]
    depth = 0
    j = i
    n = len(s)
    while j < n:
        if m[j]:
            if s[j] == open_c:
                depth += 1
            elif s[j] == close_c:
                depth -= 1
                if depth == 0:
                    return j
        j += 1
    raise Lost('unbalanced %s at %d' % (open_c, i))


def find_code(s, m, pat, start=0, end=None, flags=re.M):
    """iterate regex matches whose first char is code"""
    rx = re.compile(pat, flags)
    pos = start
    end = len(s) if end is None else end
    while True:
        mm = rx.search(s, pos, end)
        if not mm:
            return
        if m[mm.start()]:
            yield mm
        pos = mm.end() if mm.end() > mm.start() else mm.start() + 1


def next_code_char(s, m, i, ch, end=None):
    """index of next code occurrence of ch at paren/bracket depth 0 starting at i"""
    depth = 0
    end = len(s) if end is None else end
    j = i
    while j < end:
        if m[j]:
            c = s[j]
            if c == ch and depth == 0:
                return j
            if c in '([':
                depth += 1
            elif c in ')]':
                depth -= 1
        j += 1
    raise Lost('no %r after %d' % (ch, i))


def attr_start(s, st):
    """extend start index st (at beginning of a line) upwards over attribute and doc lines"""
    while st > 0:
        prev_end = s.rfind('\n', 0, st - 1)
        line = s[prev_end + 1:st - 1]
        if re.match(r'\s*(#\[|///|/\*\*)', line):
            st = prev_end + 1
        else:
            break
    return st


def item_span(s, m, header_pat, nth=0):
    """(start_with_attrs, header_start, body_open, body_close) of the nth item whose header matches"""
    ms = list(find_code(s, m, header_pat))
    if len(ms) <= nth:
        raise Lost('item not found: %s [#%d]' % (header_pat, nth))
    mm = ms[nth]
    ls = s.rfind('\n', 0, mm.start()) + 1
    bo = next_code_char(s, m, mm.start(), '{')
    bc = match_close(s, m, bo)
    return attr_start(s, ls), ls, bo, bc


def fn_span(s, m, name, start, end):
    """(start_with_attrs, sig_start, body_open, body_close) of fn `name` between start and end"""
    pat = r'^[ \t]*(?:pub(?:\([a-z]+\))? )?(?:const )?fn ' + re.escape(name) + r'(?![A-Za-z0-9_])'
    ms = list(find_code(s, m, pat, start, end))
    if len(ms) != 1:
        raise Lost('fn %s: %d matches' % (name, len(ms)))
    mm = ms[0]
    ls = s.rfind('\n', 0, mm.start()) + 1
    bo = next_code_char(s, m, mm.end(), '{')
    # a spliced contract may contain braces; the injector marks the real body brace
    nxt = re.compile(r'^[ \t]*(?:pub(?:\([a-z]+\))? )?(?:const )?fn ', re.M).search(s, mm.end())
    lim = nxt.start() if nxt else len(s)
    mk = s.find(BODY_MARK, mm.end(), lim)
    if mk >= 0:
        bo = mk + len(BODY_MARK)
        assert s[bo] in '{;', s[bo:bo + 20]
        if s[bo] == ';':
            return attr_start(s, ls), ls, bo, bo
        bc = match_close(s, m, bo)
        return attr_start(s, ls), ls, bo, bc
    try:
        semi = next_code_char(s, m, mm.end(), ';', bo)
    except Lost:
        semi = None
    if semi is not None:
        # declaration without body (trait method): both "brace" positions are the `;`
        return attr_start(s, ls), ls, semi, semi
    bc = match_close(s, m, bo)
    return attr_start(s, ls), ls, bo, bc


def loops(s, m, bo, bc):
    """list of (kw_start, body_open) for every loop in s[bo:bc], in source order"""
    out = []
    for mm in find_code(s, m, r'(?<![A-Za-z0-9_])(while|loop|for)(?![A-Za-z0-9_])', bo, bc):
        # `for` in `impl X for Y` / `for<'a>` cannot occur inside fn bodies here
        b = next_code_char(s, m, mm.end(), '{', bc)
        out.append((mm.start(), b))
    return out
